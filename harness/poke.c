/*
 * poke.c - only linked into the 'poke' driver flavour used by tools/table_mutants.py (never by a registered check):
 * overwrites one int of one INSTR_TABLE row at run time, so that thousands of "one table cell changed" variants of the
 * library can be exercised without rebuilding. The table lives in .rodata; its pages are made writable first.
 */
#define _GNU_SOURCE 1
#include "instructions.h"
#include <stddef.h>
#include <stdint.h>
#include <stdio.h>
#include <stdlib.h>
#include <string.h>
#include <sys/mman.h>

int poke_cmd(const char *row, const char *idx, const char *val, char *out, size_t outlen) {
  if (!strcmp(row, "info")) {
    snprintf(out, outlen, "K info rowints=%zu name=%zu fmt0=%zu enc=%zu type=%zu opoff=%zu single=%zu size=%zu opcode=%zu",
             sizeof(struct instr_table) / sizeof(int), offsetof(struct instr_table, name) / sizeof(int),
             offsetof(struct instr_table, opd_format) / sizeof(int), offsetof(struct instr_table, encode_operand) / sizeof(int),
             offsetof(struct instr_table, type) / sizeof(int), offsetof(struct instr_table, op_offset_i) / sizeof(int),
             offsetof(struct instr_table, single_reg_r) / sizeof(int), offsetof(struct instr_table, instr_size) / sizeof(int),
             offsetof(struct instr_table, opcode) / sizeof(int));
    return 0;
  }
  long r = atol(row), i = atol(idx);
  int *cell = (int *)&INSTR_TABLE[r] + i;
  uintptr_t lo = (uintptr_t)cell & ~4095UL;
  mprotect((void *)lo, 8192, PROT_READ | PROT_WRITE);
  int old = *cell;
  if (val)
    *(volatile int *)cell = (int)strtol(val, NULL, 0);
  snprintf(out, outlen, "K %d", old);
  return 0;
}
