"""C05 - relative jumps and calls encode the given displacement; rel8 never wraps."""
from .. import common, isa, enc, oracle, canon


def run(tier):
    v = common.Verdict("C05", tier)
    full = tier == "thorough"
    rnd = common.rng("c05")
    binary = common.build("asan")
    cases = isa.gen_branch(rnd, 64 if not full else 3000, full)
    ok = enc.validate_reference(cases, v)
    items = [(enc.DEFAULT if i % 7 else rnd.choice(enc.COMBOS), c["text"], 0) for i, c in enumerate(cases)]
    res = common.run_lines(binary, items, tag="c05")
    oracle.decode_many([r["bytes"] for r in res if "bytes" in r and r.get("rc") == 0])
    st = {"accepted": 0, "rejected": 0, "rel8": 0, "rel32": 0, "must_reject_checked": 0, "silent_model": 0}
    for c, (m, _, _), r, refok in zip(cases, items, res, ok):
        v.count()
        cc = dict(c)
        cc["combo"] = m
        cc["key"] = "%s [%s]" % (c["text"], m)
        cc["exp"] = repr(c["exp"])
        if "crash" in r:
            v.violation(cc, r["crash"]["sig"], r["crash"]["stderr"][-1200:])
            continue
        model = set(c["model"]) if c["model"] is not None else None
        if model is None:
            st["silent_model"] += 1
        if r["rc"] != 0:
            st["rejected"] += 1
            if model is not None and "reject" not in model:
                if refok:
                    v.violation(cc, "rejected", None)
            else:
                if model == {"reject"}:
                    st["must_reject_checked"] += 1
                    v.distinct(("rej", c["text"]))
                if r["lo"] != -1:
                    v.violation(cc, "rejected-but-wrote-bytes", r["bytes"])
            continue
        st["accepted"] += 1
        cc["got_bytes"] = r["bytes"]
        n = len(r["bytes"]) // 2
        if r["off"] != n or n == 0:
            v.violation(cc, "offset-advance!=bytes", "off=%d n=%d" % (r["off"], n))
            continue
        s, c1, c2, info = oracle.canon_bytes(r["bytes"])
        if model == {"reject"}:
            # accepted although only rejection is allowed: show what it wrapped to
            v.violation(cc, "accepted-should-reject", info)
            continue
        if s != "ok":
            v.violation(cc, enc.decode_symptom(r["bytes"]), info)
            continue
        e = c["exp"]
        if c1 != e or c2 != e:
            s1, s2 = canon.diff_sig(e, c1), canon.diff_sig(e, c2)
            v.violation(cc, s1 if s1 == s2 else s1 + " | " + s2, info)
            continue
        form = "rel8" if n == 2 else "rel32"
        st[form] += 1
        if model is not None and form not in model:
            v.violation(cc, "form:%s-not-allowed" % form, info)
            continue
        v.distinct((c["text"], r["bytes"]))
        if st["accepted"] % 4000 == 1:
            v.sample({"text": c["text"], "opts": m, "bytes": r["bytes"], "decoded": info, "form": form})
    # indirect forms: registers here; memory and far-memory targets over the C02 address shapes
    ind = isa.gen_branch_indirect()
    mem = isa.gen_mem(full, rnd, classes={"jmp_m", "call_m"}, per_class=None if full else 3000)
    far = isa.gen_far(rnd)
    st2 = enc.run(v, ind + mem + far, binary)
    st.update({"indirect_" + k: x for k, x in st2.items()})
    v.cov["rule"] = ("{jmp, call, jrcxz, xbegin, 15 jcc spellings} x {no keyword, short, long} x d in -129..128 (all), around +/-2^15, +/-2^31 and seeded random, decimal and hex; "
                     "an accepted line must decode (two decoders) to the same branch with rel == d and a form the model allows; lines the property requires to be rejected must return EXIT_FAILURE "
                     "and leave the buffer untouched; the model is silent where the statement is; indirect targets: all r64, memory targets over address shapes (C02 machinery), far word/dword/qword")
    v.cov["exhaustive"] = False
    v.cov["model"] = "vlib/isa.py branch_model"
    floor = st["accepted"] > 1000 and st["must_reject_checked"] >= 0
    return v.finish(st, floor, "too few accepted branch lines: %r" % st)
