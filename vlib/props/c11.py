"""C11 - assembly modes change only the documented forms, in the documented way."""
from .. import common, isa, enc, oracle, canon
from ..canon import R64, R32, REGW, regnum


def model_movimm(mode, v, spelling):
    """must 'mov r64, v' be narrowed to the 32-bit destination form?  mode: 0 STRICT, 1 NASM, 2 SMART"""
    inrange = 0 <= v <= 0xffffffff
    if mode == 0:
        return False
    if mode == 1:
        return inrange
    return inrange and spelling != "hex16"


def parse_lea(h):
    """raw ModRM/SIB fields of 'lea r, m' (optional 0x67, REX, 8D /r). Returns dict or None."""
    try:
        return _parse_lea(h)
    except IndexError:
        return None


def _parse_lea(h):
    b = bytes.fromhex(h)
    i = 0
    a32 = False
    while i < len(b) and b[i] in (0x66, 0x67):
        a32 = a32 or b[i] == 0x67
        i += 1
    rex = 0
    if i < len(b) and 0x40 <= b[i] <= 0x4f:
        rex = b[i]
        i += 1
    if i >= len(b) or b[i] != 0x8d:
        return None
    i += 1
    modrm = b[i]
    i += 1
    mod, rm = modrm >> 6, modrm & 7
    out = {"mod": mod, "rm": rm, "sib": None, "a32": a32}
    if rm == 4 and mod != 3:
        sib = b[i]
        i += 1
        out["sib"] = {"scale": 1 << (sib >> 6), "index": ((sib >> 3) & 7) | (8 if rex & 2 else 0), "base": (sib & 7) | (8 if rex & 1 else 0), "basefield": sib & 7}
    else:
        out["rmreg"] = rm | (8 if rex & 1 else 0)
    out["displen"] = len(b) - i
    return out


def run(tier):
    v = common.Verdict("C11", tier)
    full = tier == "thorough"
    rnd = common.rng("c11")
    binary = common.build("asan")
    stats = {}
    # ---------------- (a) mov r64, imm under all 12 combos
    vals = [x for x in isa.imm_values(rnd, 3 if not full else 10) if -(2**63) <= x < 2**64]
    items, meta = [], []
    nasm_lines = []
    for reg in R64:
        for val in (vals if full else rnd.sample(vals, min(len(vals), 40)) + [0, 1, 0x7fffffff, 0x80000000, 0xffffffff, 0x100000000, -1]):
            for sp, txt in isa.spellings(val, rnd, all_=True, wrap=True):
                line = "mov %s, %s" % (reg, txt)
                nasm_lines.append(line)
                for m in enc.COMBOS:
                    items.append((m, line, 0))
                    meta.append((reg, val, sp, m, line))
    nres = oracle.nasm_many(nasm_lines)
    oracle.decode_many([x[0] for x in nres.values() if x[0]])
    res = common.run_lines(binary, items, tag="c11a")
    oracle.decode_many([r["bytes"] for r in res if "bytes" in r and r.get("rc") == 0])
    per_line = {}
    stats["mov_imm_lines"] = len(nasm_lines)
    stats["mov_imm_assemblies"] = len(items)
    narrowed_seen = kept_seen = nasm_equal = 0
    for (reg, val, sp, m, line), r in zip(meta, res):
        v.count()
        case = {"key": "%s [%s]" % (line, m), "text": line, "fam": "movimm", "combo": m, "imm": val, "spell": sp, "reg": reg, "mn": "mov", "w": 64}
        if "crash" in r:
            v.violation(case, r["crash"]["sig"], r["crash"]["stderr"][-800:])
            continue
        if r["rc"] != 0:
            v.violation(case, "rejected", None)
            continue
        st, c1, c2, info = oracle.canon_bytes(r["bytes"])
        if st != "ok" or c1 != c2:
            v.violation(case, enc.decode_symptom(r["bytes"]) if st != "ok" else "decoders-disagree", info)
            continue
        r32 = R32[R64.index(reg)]
        want_narrow = model_movimm(int(m[0]), val, sp)
        exp = ("mov", ("r", r32 if want_narrow else reg), ("i", val & ((1 << (32 if want_narrow else 64)) - 1)))
        if c1 != exp:
            if c1[0] == "mov" and len(c1) == 3 and c1[1] in (("r", reg), ("r", r32)) and c1[1] != exp[1]:
                # value must still be right even when the form is wrong
                sym = "narrowing:%s-but-must-%s" % ("narrowed" if c1[1] == ("r", r32) else "kept", "narrow" if want_narrow else "keep")
            else:
                sym = "movimm:" + canon.diff_sig(exp, c1)
            v.violation(case, sym, "%s | %s" % (r["bytes"], info))
            continue
        narrowed_seen += want_narrow
        kept_seen += not want_narrow
        if m[0] == "1":
            nb = nres[line][0]
            if nb:
                s2, n1, n2, ninfo = oracle.canon_bytes(nb)
                if s2 == "ok" and n1 != c1:
                    v.violation(case, "nasm-mode-differs-from-nasm", "library %s (%s) nasm %s (%s)" % (r["bytes"], info, nb, ninfo))
                    continue
                nasm_equal += nb == r["bytes"]
        per_line.setdefault(line, {})[m] = r["bytes"]
        v.distinct((line, m))
    # the mov dimension only: same bytes for combos that agree on the mov mode
    for line, bym in per_line.items():
        for mv in "012":
            bs = set(b for m, b in bym.items() if m[0] == mv)
            if len(bs) > 1:
                v.violation({"key": line + " mov=" + mv, "text": line, "fam": "movimm", "mn": "mov"}, "sib-option-changes-mov-imm", repr(sorted(bs)))
    stats.update({"mov_narrowed_as_model": narrowed_seen, "mov_kept_as_model": kept_seen, "nasm_mode_byte_identical_to_nasm": nasm_equal})
    v.sample({"part": "a", "example": "mov rax, 0x000000007fffffff", "bytes_by_combo": per_line.get("mov rax, 0x000000007fffffff")})
    # ---------------- (b) lea with the mode-sensitive shapes: literal encoding in STRICT, address-equal rewriting in NASM
    items, meta = [], []
    fams = [(R64, "rsp"), (R32, "esp")]
    for regs, sp in fams:
        for base in regs:
            if base == sp:
                continue
            for disp in (None, 8, -0x80, 0x1000):
                items_line = "lea r15, %s" % isa.render_mem(base, sp, None, "is", disp)
                for m in enc.COMBOS:
                    items.append((m, items_line, 0))
                    meta.append(("swap", base, sp, None, disp, m, items_line))
        for idx in regs:
            if idx == sp:
                continue
            for s in (1, 2, 4, 8):
                for disp in (None, 8, -0x80, 0x1000):
                    items_line = "lea r15, %s" % isa.render_mem(None, idx, s, "si", disp)
                    for m in enc.COMBOS:
                        items.append((m, items_line, 0))
                        meta.append(("nobase", None, idx, s, disp, m, items_line))
    res = common.run_lines(binary, items, tag="c11b")
    oracle.decode_many([r["bytes"] for r in res if "bytes" in r and r.get("rc") == 0])
    per_line = {}
    lit = rew = 0
    for (kind, base, idx, s, disp, m, line), r in zip(meta, res):
        v.count()
        case = {"key": "%s [%s]" % (line, m), "text": line, "fam": "lea_" + kind, "combo": m, "base": base, "index": idx, "scale": s, "disp": disp, "form": "lea",
                "index_n": regnum(idx), "base_n": regnum(base) if base else None, "mn": "lea"}
        if "crash" in r:
            v.violation(case, r["crash"]["sig"], r["crash"]["stderr"][-800:])
            continue
        if r["rc"] != 0:
            v.violation(case, "rejected", None)
            continue
        per_line.setdefault(line, {})[m] = r["bytes"]
        st, c1, c2, info = oracle.canon_bytes(r["bytes"])
        f = parse_lea(r["bytes"])
        nasm_mode = m[1] == "1" if kind == "swap" else m[2] == "1"
        asz = REGW[idx]
        if kind == "swap":
            explin = ((base, 1), (idx, 1)) if nasm_mode else ((base, 1),)
        else:
            explin = ((idx, s),)
        exp = ("lea", ("r", "r15"), ("m", None, asz, tuple(sorted(explin)), canon.signed(disp or 0, asz)))
        if st != "ok" or c1 != exp or c2 != exp:
            sym = enc.decode_symptom(r["bytes"]) if st != "ok" else (canon.diff_sig(exp, c1) if canon.diff_sig(exp, c1) == canon.diff_sig(exp, c2) else canon.diff_sig(exp, c1) + " | " + canon.diff_sig(exp, c2))
            v.violation(case, sym, "%s | %s" % (r["bytes"], info))
            continue
        # literal-vs-rewritten form, from the raw ModRM/SIB fields
        if f is None or (f["sib"] is None and kind == "swap"):
            v.violation(case, "lea-form-unparsed", r["bytes"])
            continue
        if kind == "swap":
            literal = f["sib"]["index"] == 4 and f["sib"]["base"] == regnum(base)
            rewritten = f["sib"]["base"] == 4 and f["sib"]["index"] == regnum(base)
            if nasm_mode and not rewritten or (not nasm_mode and not literal):
                v.violation(case, "swap-form:%s-expected" % ("rewritten" if nasm_mode else "literal"), "%s %r" % (r["bytes"], f))
                continue
        else:
            literal = f["sib"] is not None and f["sib"]["basefield"] == 5 and f["mod"] == 0 and f["sib"]["scale"] == s and f["sib"]["index"] == regnum(idx)
            if not nasm_mode and not literal:
                v.violation(case, "nobase-form:literal-expected", "%s %r" % (r["bytes"], f))
                continue
            if nasm_mode and s in (1, 2) and literal:
                v.violation(case, "nobase-form:rewritten-expected", "%s %r" % (r["bytes"], f))
                continue
        lit += (not nasm_mode)
        rew += nasm_mode
        v.distinct((line, m))
    for line, bym in per_line.items():
        dim = 1 if "[" in line and ("+rsp" in line or "+esp" in line) else 2
        for mode in "01":
            bs = set(b for m, b in bym.items() if m[dim] == mode)
            if len(bs) > 1:
                v.violation({"key": line + " dim%d=%s" % (dim, mode), "text": line, "fam": "lea_cross", "mn": "lea"}, "unrelated-option-changes-bytes", repr(sorted(bs)))
        # scales 4 and 8 have no NASM rewriting: identical under both no-base modes
        if dim == 2 and ("[4*" in line or "[8*" in line) and len(set(bym.values())) > 1:
            v.violation({"key": line, "text": line, "fam": "lea_cross", "mn": "lea"}, "nobase-option-changes-scale4/8", repr(sorted(set(bym.values()))))
    stats.update({"lea_literal_checked": lit, "lea_rewritten_checked": rew})
    # ---------------- (b2) the same literal / rewritten FORM under the other encoder paths (one-operand jmp/call/push, VEX, SSE, MR/RM,
    # setcc, BMI2 ...): for an operand M the bytes ModRM.mod/rm + SIB + displacement of `<instruction> M` must be those of `lea r15, M`
    # under the same options (only ModRM.reg differs). Decoding cannot see a swap that keeps the address.
    TMPL = ["jmp %s", "call %s", "push qword %s", "vpaddb ymm1, ymm2, %s", "paddb xmm1, %s", "mov rdx, %s", "mov %s, rdx", "inc dword %s", "sete %s", "bextr rax, %s, rbx",
            "movq %s, xmm1", "prefetcht0 %s", "cmovne rcx, %s", "vmovdqu %s, ymm9", "mulx rax, rbx, %s", "xchg r9, %s",
            # ... and every other class of instruction with a memory operand (one representative each)
            "test qword %s, rdx", "movd xmm1, %s", "movd %s, xmm9", "shld %s, rax, cl", "shld qword %s, rax, 5", "add qword %s, 5", "imul rax, %s, 5",
            "imul rcx, %s", "movzx eax, byte %s", "adcx rax, %s", "rorx rax, %s, 5", "vperm2i128 ymm1, ymm2, %s, 1", "shl qword %s, cl", "shl qword %s, 1", "neg qword %s",
            "movntq %s, mm1", "paddb mm1, %s", "clflush %s", "jmp far %s", "mov byte %s, 5", "cmp %s, ax", "vpaddb xmm8, xmm9, %s"]  # (bt m / pshufd x,m / xchg m,r / pop m are forms the library does not have)
    IMM8_TAIL = {"shld qword %s, rax, 5", "add qword %s, 5", "imul rax, %s, 5", "rorx rax, %s, 5", "vperm2i128 ymm1, ymm2, %s, 1", "mov byte %s, 5"}
    lealines = sorted(per_line)
    pickl = lealines if full else rnd.sample(lealines, min(len(lealines), 70))
    fitems, fmeta = [], []
    for ll in pickl:
        M = ll[len("lea r15, "):]
        for t in (TMPL if full else rnd.sample(TMPL, 10)):
            for m in enc.COMBOS:
                if m in per_line[ll]:
                    fitems.append((m, t % M, 0))
                    fmeta.append((ll, t, m))
    fres = common.run_lines(binary, fitems, tag="c11f")
    form_ok = 0
    for (ll, t, m), r in zip(fmeta, fres):
        v.count()
        L = bytes.fromhex(per_line[ll][m])
        case = {"key": "%s [%s] vs %s" % (t % ll[len("lea r15, "):], m, ll), "text": t % ll[len("lea r15, "):], "fam": "form_other_class", "combo": m, "mn": t.split()[0]}
        if "crash" in r:
            v.violation(case, r["crash"]["sig"], r["crash"]["stderr"][-800:])
            continue
        if r["rc"] != 0:
            v.violation(case, "rejected", None)
            continue
        B = bytes.fromhex(r["bytes"])
        if t in IMM8_TAIL:
            B = B[:-1]  # (the one-byte immediate behind the memory operand is not part of the comparison)
        k = len(L) - L.index(0x8d) - 1
        if len(B) <= k or (B[-k] & 0xC7) != (L[-k] & 0xC7) or B[len(B) - k + 1:] != L[len(L) - k + 1:]:
            v.violation(case, "operand-form-differs-from-lea:" + ("swap" if ("+rsp" in ll or "+esp" in ll) else "nobase"), "instruction %s lea %s (last %d bytes: ModRM, SIB, displacement)" % (B.hex(), L.hex(), k))
        else:
            form_ok += 1
            v.distinct(("form", ll, t, m))
    stats["operand_form_vs_lea_checked"] = form_ok
    # ---------------- (c) every other line: identical bytes under all twelve combinations
    cases = isa.gen_int_regs()
    if not full:
        cases = rnd.sample(cases, 12000)
    cases += isa.gen_vec_regs(corners_only=True, rnd=rnd, frac=0.0 if not full else 0.2)
    cases += isa.gen_mem(False, rnd, per_class=300 if not full else 3000)
    cases += isa.gen_imm(rnd, False)
    cases += [c for c in isa.gen_branch(rnd, 8) if c["d"] % 3 == 0 or full]
    # immediates of any magnitude, also ones the destination cannot hold: whatever the library does with them, the options must not matter
    import re
    WIDE = [0x80, 0xff, 0x100, 0x8000, 0xffff, 0x10000, 0x7fffffff, 0x80000000, 0xffffffff, 0x100000000, 0x1ffffffff, 0x7fffffffffffffff, 0x8000000000000000,
            0xffffffffffffffff, -0x81, -0x8001, -0x80000000, -0x80000001]
    seen_forms = set()
    for c in list(cases):
        if not c["fam"].startswith("imm_"):
            continue
        form = re.sub(r"-?(0x[0-9a-f]+|[0-9]+)$", "", c["text"])
        if form == c["text"] or form in seen_forms:
            continue
        seen_forms.add(form)
        for val in (WIDE if full else rnd.sample(WIDE, 6) + [0x80000000, 0xffffffff]):
            c2 = dict(c)
            c2["text"] = form + (("-0x%x" % -val) if val < 0 else ("0x%x" % val if rnd.random() < 0.7 else "%d" % val))
            c2["wide"] = True
            cases.append(c2)
    stats["wide_immediate_forms"] = len(seen_forms)
    lines = {}
    origin = {}
    for c in cases:
        sens = set()
        if c["fam"] == "imm_ri" and c["mn"] == "mov" and c["w"] == 64:
            sens.add(0)
        if c.get("index") in ("rsp", "esp"):
            sens.add(1)
        if c.get("index") and not c.get("base") and c["fam"].startswith("mem_") and c.get("scale") in (1, 2):
            sens.add(2)
        lines[c["text"]] = sens
        origin[c["text"]] = c
    texts = sorted(lines)
    items = [(m, t, 0) for t in texts for m in enc.COMBOS]
    res = common.run_lines(binary, items, tag="c11c")
    stats["other_lines"] = len(texts)
    stats["other_assemblies"] = len(items)
    ident = 0
    for ti, t in enumerate(texts):
        rs = res[ti * 12:(ti + 1) * 12]
        v.count(12)
        sens = lines[t]
        case = {k: x for k, x in origin[t].items() if k not in ("exp", "alt", "nasm")}
        case.update({"key": t, "text": t, "ofam": origin[t]["fam"], "fam": "noninterference", "sensitive_dims": sorted(sens)})
        crash = [r for r in rs if "crash" in r]
        if crash:
            v.violation(case, crash[0]["crash"]["sig"], crash[0]["crash"]["stderr"][-800:])
            continue
        groups = {}
        for m, r in zip(enc.COMBOS, rs):
            key = tuple(m[d] for d in sorted(sens))
            groups.setdefault(key, set()).add((r["rc"], r["bytes"] if r["rc"] == 0 else ""))
        bad = [k for k, s in groups.items() if len(s) > 1]
        if bad:
            allres = {m: (r["rc"], r["bytes"]) for m, r in zip(enc.COMBOS, rs)}
            # which dimension is responsible?
            dims = []
            for d, nm in ((0, "mov"), (1, "swap"), (2, "nobase")):
                if d in sens:
                    continue
                for m1 in enc.COMBOS:
                    for m2 in enc.COMBOS:
                        if m1 < m2 and all(m1[i] == m2[i] for i in range(3) if i != d) and allres[m1] != allres[m2] and nm not in dims:
                            dims.append(nm)
            v.violation(case, "option-changes-bytes:" + ",".join(dims), repr(sorted(set(allres.values())))[:300])
        else:
            ident += 1
            v.distinct(("ni", t))
    stats["other_lines_identical"] = ident
    # ---------------- (d) the documented forms inside a PROGRAM: an option-sensitive line preceded, in the same call, by a context line
    # (short / decimal / 16-digit immediates, swapped and rewritten memory operands, VEX, keywords, a rejected-looking comment...) must
    # assemble exactly as it does alone under the same combination - the mode rules hold per line, not per call
    SENS = ["mov rax, 0x000000007fffffff", "mov r9, 0x0000000000000001", "mov rcx, 0x7fffffff", "mov rdx, 2147483647", "mov r8, 0x80000000", "lea r15, [rax+rsp]", "lea r15, [rax+rsp+8]",
            "lea r14, [2*rax]", "lea r14, [2*r13-0x80]", "mov qword [rbx+esp], 5" if False else "add qword [rbx+rsp], 5", "vpaddb ymm1, ymm2, [2*r12+8]"]
    CTX = ["add rcx, 5", "shl rdx, 3", "mov rcx, 0x10", "mov rax, 0x0000000000000001", "mov rax, 0x1122334455667788", "mov rbx, -1", "lea rsi, [rdi+rsp]", "lea rsi, [2*rdi]", "lea rsi, [4*rdi+8]",
           "push 0x7f", "vpaddb ymm1, ymm2, ymm3", "add byte [rax], 1", "jmp short 4", "imul rax, rbx, 100", "mov eax, 5", "nop", "; comment", "label:", "test rax, 0x000000007fffffff"]
    ditems, dmeta = [], []
    for sline in SENS:
        for m in enc.COMBOS:
            ditems.append((m, sline, 0))
            dmeta.append((sline, None, m))
            for c1 in CTX:
                for c2 in ([None] if not full else [None] + CTX[:6]):
                    ctx = [c1] + ([c2] if c2 else [])
                    ditems.append((m, "\n".join(ctx + [sline]), 0))
                    dmeta.append((sline, tuple(ctx), m))
    ctx_alone = {}
    for m in enc.COMBOS:
        rr = common.run_lines(binary, [(m, c1, 0) for c1 in CTX], tag="c11x")
        for c1, r in zip(CTX, rr):
            ctx_alone[(m, c1)] = None if ("crash" in r or r["rc"] != 0) else r["bytes"]
    dres = common.run_lines(binary, ditems, tag="c11d")
    alone = {}
    nctx = 0
    for (sline, ctx, m), r in zip(dmeta, dres):
        if ctx is None:
            alone[(sline, m)] = None if ("crash" in r or r["rc"] != 0) else r["bytes"]
    for (sline, ctx, m), r in zip(dmeta, dres):
        if ctx is None:
            continue
        v.count()
        case = {"key": "%s after %s [%s]" % (sline, " ; ".join(ctx), m), "text": sline, "fam": "in_program", "combo": m, "context": list(ctx)}
        if "crash" in r:
            v.violation(case, r["crash"]["sig"], r["crash"]["stderr"][-800:])
            continue
        want_tail = alone[(sline, m)]
        pre = [ctx_alone[(m, c)] for c in ctx]
        if want_tail is None or any(p is None for p in pre):
            continue
        want = "".join(pre) + want_tail
        if r["rc"] != 0 or r["bytes"] != want:
            v.violation(case, "mode-rule-depends-on-previous-line", "got rc=%s %s want %s" % (r["rc"], r.get("bytes"), want))
        else:
            nctx += 1
            v.distinct(("ctx", sline, ctx, m))
    stats["in_program_cases"] = nctx
    # ---------------- (e) the documented forms in the OTHER assembly modes: under chunk fitting a line that does not fit the rest of its
    # chunk is padded and encoded a second time, the counting entry point has its own loop - the narrowing / rewriting decision must be
    # the same there, under every option combination (enc.mode_crossing: bytes must equal the line's plain encoding under that combination)
    E_LINES = list(SENS)
    for reg in ("rax", "rbx", "rsp", "r8", "r12", "r15"):
        for litx in ("0x7fffffff", "0x000000007fffffff", "0x00000000ffffffff", "0xffffffff", "4294967295", "0x80000000", "0x0000000100000000", "1", "0x0000000000000000", "-1", "0x7FFFFFFF", "00000000002147483647"):
            E_LINES.append("mov %s, %s" % (reg, litx))
    for mn_t in ("lea r10, %s", "mov rdx, %s", "add qword %s, 5", "inc dword %s", "push qword %s", "vmovdqu ymm9, %s", "cmovne rcx, %s", "sete %s"):
        for msh in ("[rbx+rsp]", "[r13+rsp+0x10]", "[ebx+esp]", "[2*rcx]", "[2*r9+8]", "[rdx*2-0x80]", "[1*rsi]", "[4*rdi]", "[2*r13d]"):
            E_LINES.append(mn_t % msh)
    E_LINES = sorted(set(E_LINES))
    eitems = [(m, l, 0) for l in E_LINES for m in enc.COMBOS]
    eres = common.run_lines(binary, eitems, tag="c11e")
    acc = [({"text": l, "fam": "mode_rules"}, m, r["bytes"]) for (m, l, _), r in zip(eitems, eres) if "crash" not in r and r["rc"] == 0 and r["bytes"]]
    stats["other_modes_checks_ok"] = enc.mode_crossing(v, binary, acc)
    stats["other_modes_lines_x_combos"] = len(acc)
    v.cov["rule"] = ("(a) mov r64,imm for all 16 registers x boundary/random 64-bit values x all spellings x all 12 option combinations: decoded destination width must follow the narrowing model (NASM: 0<=v<=0xffffffff; "
                     "STRICT: never; SMART: in range and not a 16-digit hex literal), decoded value == v, NASM mode must decode like nasm's own output, SIB options must not matter; (b) lea with [base+rsp|esp+d] and "
                     "[s*idx+d] for every base/index x displacements x 12 combos: decoded address == written, raw ModRM/SIB literal in STRICT and rewritten in NASM (scales 4/8: no rewriting), unrelated options "
                     "must not matter; (c) %d other lines from the C01-C05 generators x 12 combos: identical bytes in all combos that agree on the line's documented sensitive dimension(s); (d) each option-sensitive line preceded in the same call by each of 19 context lines, under all 12 combos: same bytes as alone; (e) ~150 option-sensitive lines x 12 combos re-assembled under chunk fitting (padded, encoded a second time) and through the counting entry point: same bytes as plain under that combination" % len(texts))
    v.cov["exhaustive"] = False
    v.cov.update(stats)
    return v.finish(None, narrowed_seen > 500 and kept_seen > 500 and lit > 200 and rew > 200 and ident > 5000, "too little observed: %r" % stats)
