"""C03 - immediates keep their value at the operand's width (decode oracle + execution)."""
from .. import common, isa, enc
from ..canon import R64


def exec_cases(rnd, full):
    """mov rN, v ; mov rax, rN ; ret  - executed; must return v (rsp wrapped through rcx)."""
    vals = isa.imm_values(rnd, 2 if not full else 8)
    vals = [v for v in vals if -(2**63) <= v < 2**64]
    cases = []
    for mode in "012":
        for reg in R64:
            for v in vals:
                sps = isa.spellings(v, rnd, all_=full, wrap=True)
                sp, txt = sps[rnd.randrange(len(sps))] if not full else (None, None)
                for sp, txt in (sps if full else [(sp, txt)]):
                    if reg == "rsp":
                        prog = "mov rcx, rsp\nmov rsp, %s\nmov rax, rsp\nmov rsp, rcx\nret\n" % txt
                    else:
                        prog = "mov %s, %s\nmov rax, %s\nret\n" % (reg, txt, reg)
                        if len(cases) % 3 == 1 and txt[-1] in "0123456789abcdefABCDEF":
                            # the same program behind a DECOY: another register first receives a literal that differs from this
                            # one in its last digit only (same length, same spelling)
                            last = txt[-1]
                            alt = {"0": "1", "9": "8", "f": "e", "F": "E", "a": "b", "A": "B"}.get(last, chr(ord(last) + 1))
                            decoy = "r11" if reg != "r11" else "rdx"
                            prog = "mov %s, %s\n" % (decoy, txt[:-1] + alt) + prog
                    cases.append({"reg": reg, "imm": v, "mode": mode, "spell": sp, "text": "mov %s, %s" % (reg, txt), "prog": prog,
                                  "fam": "exec_mov_r64", "mn": "mov", "w": 64, "key": "exec mov %s, %s [mov=%s]" % (reg, txt, mode)})
    return cases


def run(tier):
    v = common.Verdict("C03", tier)
    full = tier == "thorough"
    rnd = common.rng("c03")
    binary = common.build("asan")
    cases = isa.gen_imm(rnd, full)

    def combos_for(c):
        if c["mn"] == "mov" and c["fam"] == "imm_ri" and c["w"] == 64:
            return ["011", "111", "211"]
        return [enc.DEFAULT]

    st = enc.run(v, cases, binary, combos_for)
    # ---- "assembling succeeds ... decodes to the written value" whatever the calling thread's errno happens to hold, and whatever an
    # earlier (rejected) literal left behind: the values strtoul also uses to signal overflow (2^64-1 in every spelling) and the
    # boundary values, each assembled after errno = ERANGE / EINVAL and after a failing call with a 65-bit literal, must give the
    # bytes of the same line assembled in a fresh process state
    special = [c for c in cases if c.get("imm") in (2**64 - 1, -1, 2**63, 2**63 - 1, -(2**63), 0xffffffff, -0x80000000, 0x7fffffff, 0, 0x80)]
    pick = special[:: max(1, len(special) // (400 if not full else 4000))] + rnd.sample(cases, 100 if not full else 2000)
    alone = common.run_lines(binary, [(enc.DEFAULT, c["text"], 0) for c in pick], tag="c03e")
    ecases, emeta = [], []
    for c, a0 in zip(pick, alone):
        if "crash" in a0 or a0["rc"] != 0:
            continue
        for pre in (["errno 0 34"], ["errno 0 22"], ["asm 0 %s" % common.hx("mov rcx, 0x10000000000000000"), "setoff 0 0"]):
            ecases.append(["new 0 ext 64 H 0xcc"] + pre + ["asm 0 %s" % common.hx(c["text"]), "getoff 0", "dump 0 0 20"])
            emeta.append((c, a0["bytes"], pre[0]))
    eres = common.run_cases(binary, ecases, tag="c03f")
    errno_ok = 0
    for (c, want, pre), r in zip(emeta, eres):
        v.count()
        cc = {k: x for k, x in c.items() if k not in ("exp", "alt", "nasm")}
        cc.update({"key": "%s after '%s'" % (c["text"], pre[:20]), "fam": "imm_errno"})
        if r["crash"]:
            v.violation(cc, r["crash"]["sig"], r["crash"]["stderr"][-800:])
            continue
        a = r["records"][-3].split()
        d = r["records"][-1].split()[1]
        if a[1] != "0":
            v.violation(cc, "rejected-after-errno/earlier-overflow", " ".join(a))
        elif not d.startswith(want):
            v.violation(cc, "bytes-differ-after-errno/earlier-overflow", "got %s want %s" % (d[:len(want) + 4], want))
        else:
            errno_ok += 1
    st["ambient_errno_checks_ok"] = errno_ok
    # execution monitor
    plain = common.build("plain")
    ex = exec_cases(rnd, full)
    scripts = []
    for c in ex:
        scripts.append(["new 0 int", "opt 0 mov %s" % c["mode"], "asm 0 %s" % common.hx(c["prog"]), "exec 0"])
    res = common.run_cases(plain, scripts, tag="c03x")
    ok = 0
    for c, r in zip(ex, res):
        v.count()
        if r["crash"]:
            v.violation(c, r["crash"]["sig"], r["crash"]["stderr"][-800:])
            continue
        recs = r["records"]
        a = recs[2].split()
        if a[0] != "A" or a[1] != "0":
            v.violation(c, "exec:rejected", recs[2])
            continue
        e = recs[3].split()
        want = c["imm"] & (2**64 - 1)
        if e[:2] == ["V", "ok"] and int(e[2], 16) == want:
            ok += 1
            v.distinct(("exec", c["reg"], c["imm"], c["mode"]))
            if ok % 500 == 1:
                v.sample({"executed": c["prog"].replace("\n", "; "), "mov_mode": c["mode"], "rax": e[2]})
        else:
            v.violation(c, "exec:wrong-value" if e[:2] == ["V", "ok"] else "exec:" + "-".join(e[1:2]), "got %s want 0x%x" % (" ".join(e), want))
    st["executions"] = len(ex)
    st["executions_ok"] = ok
    # ---- execution of register-destination immediate forms against the Python models (vlib/sem.py)
    from .. import sem
    strata = {}
    for c in cases:
        if c["fam"] in ("imm_ri", "imm_shift_ri", "imm_imul_rri", "imm_rorx", "imm_shxd_rri"):
            strata.setdefault((c["fam"], c["mn"], c["w"], c.get("imm_bytes"), c.get("imm_neg")), []).append(c)
    picked = []
    for k in sorted(strata, key=str):
        g = strata[k]
        picked += g if len(g) <= 4 else rnd.sample(g, 4 if not full else 20)
    ex2, meta2 = [], []
    for c in picked:
        pr = sem.program(c, rnd)
        if pr is None:
            continue
        for mode in ("2", "0", "1") if (c["mn"] == "mov" and c["w"] == 64) else ("2",):
            ex2.append(["new 0 int", "opt 0 mov %s" % mode, "asm 0 %s" % common.hx("\n".join(pr[0])), "exec 0"])
            meta2.append((c, pr[0], pr[1], mode))
    res2 = common.run_cases(plain, ex2, tag="c03y")
    ok2 = 0
    for (c, prog, want, mode), cmds, r in zip(meta2, ex2, res2):
        v.count()
        cc = {k: x for k, x in c.items() if k not in ("exp", "alt")}
        cc.update({"key": "exec %s [mov=%s]" % (c["text"], mode), "fam": "exec_" + c["fam"], "script": cmds})
        if r["crash"]:
            v.violation(cc, r["crash"]["sig"], r["crash"]["stderr"][-600:])
            continue
        a, e = r["records"][2].split(), r["records"][3].split()
        if a[1] != "0":
            v.violation(cc, "exec:rejected", r["records"][2])
        elif e[:2] != ["V", "ok"] or int(e[2], 16) != want:
            v.violation(cc, "exec:computes-differently", "program %s -> %s, model 0x%x" % ("; ".join(prog), " ".join(e), want))
        else:
            ok2 += 1
            v.distinct(("exec2", c["text"], mode))
    st["model_executions"] = len(ex2)
    st["model_executions_ok"] = ok2
    v.cov["rule"] = ("immediate-taking forms (ALU/mov/test r,imm and m,imm at every width, imul, shifts, rorx, shld/shrd, push, xabort, psrldq, vperm2*128) x boundary and "
                     "seeded random values representable at the destination x spellings (hex, decimal, negated, leading zeros, 16-digit); decoded immediate compared modulo the "
                     "operand width, immediate-field width checked through instruction length; plus JIT execution of 'mov r64,v; mov rax,r64; ret' for all 16 registers x values x 3 mov modes (a third of them behind a decoy mov whose literal differs in the last digit only)")
    v.cov["exhaustive"] = False
    v.assumptions += ["decoders trusted where nasm validates them", "for mov r64,imm with 0<=imm<=0xffffffff both the r64 and the zero-extending r32 destination are accepted here (which one: C11)"]
    floor = st["held"] > 1000 and ok > 100 and st["reference_validated_cases"] >= 0.99 * st["cases"]
    return v.finish(st, floor, "too few judged cases / executions or reference side not validated: %r" % st)
