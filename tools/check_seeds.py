#!/usr/bin/env python3
"""tools/check_seeds.py [ids...] - regression run over the independently written breaks in seeded/: each one is applied to a scratch
copy of /repo (patch.head.diff where the original patch no longer applies) and the quick check of the property it breaks (plus
the other checks listed in caught_by) is run; prints one line per seed and a summary. Exit 1 if a seed is not caught by the check
of its own property."""
import glob, json, os, subprocess, sys
V = os.path.dirname(os.path.dirname(os.path.abspath(__file__)))
want = sys.argv[1:]
missed = []
for d in sorted(glob.glob(os.path.join(V, "seeded", "*"))):
    sid = os.path.basename(d)
    if want and not any(sid.startswith(w) for w in want):
        continue
    m = json.load(open(os.path.join(d, "meta.json")))
    patch = os.path.join(d, "patch.head.diff") if os.path.exists(os.path.join(d, "patch.head.diff")) else os.path.join(d, "patch.diff")
    prim = m["breaks_property"]
    r = subprocess.run([sys.executable, os.path.join(V, "tools", "try_patch.py"), patch, prim], capture_output=True, text=True, env=dict(os.environ, VERIF_FUZZ_RUNS="600000"))
    line = (r.stdout.strip().splitlines() or ["?"])[-1]
    ok = " exit=1 " in line
    if not ok:
        missed.append(sid)
    print("%-45s %s %s" % (sid, "CAUGHT" if ok else "MISSED", line[:150]), flush=True)
print("missed by the check of their own property:", missed)
sys.exit(1 if missed else 0)
