"""C18 - independent instances can be used concurrently from different threads (TSan + result comparison)."""
import os, re, subprocess
from concurrent.futures import ThreadPoolExecutor
from .. import common, corpus

common.FLAVOURS["tsan"] = ("gcc", ["-O1", "-g", "-fsanitize=thread", "-fno-omit-frame-pointer"], [], ["-lpthread"])
# uninstrumented and unoptimised: process start costs a millisecond (thousands of cold starts per run) and the windows are widest
common.FLAVOURS["cold"] = ("gcc", ["-O0", "-g"], [], ["-lpthread"])


def tsan_reports(err):
    """split stderr into ThreadSanitizer report blocks; return list of (kind, key) where key = outermost library frames of both stacks"""
    out = []
    for blk in err.split("=================="):
        if "WARNING: ThreadSanitizer" not in blk:
            continue
        kind = blk.split("WARNING: ThreadSanitizer:")[1].split("(")[0].strip()
        frames = re.findall(r"#\d+ (\S+) (?:\S*/)?(\S+?\.c):\d+", blk)
        lib = [f for f, src in frames if src not in ("threads.c",)]
        key = ",".join(sorted(set(lib))[:4])
        out.append((kind, key, blk[:1500]))
    return out


def run(tier):
    v = common.Verdict("C18", tier)
    full = tier == "thorough"
    rnd = common.rng("c18")
    tsan = common.build("tsan", main="threads.c")
    asan = common.build("asan", main="threads.c", libs=["-lpthread"])
    rep = corpus.representative(rnd, 1, cap=400)
    lines = sorted(set(c["text"] for c in rep))
    progs = []
    for k in range(200):
        n = rnd.randrange(1, 12)
        p = [rnd.choice(lines) for _ in range(n)]
        if k % 10 == 0:
            p.insert(rnd.randrange(len(p) + 1), "bogus rax")  # failing programs must fail identically
        progs.append("\n".join(p))
    # program 0: option-sensitive lines only (the gap trials assemble it under two different option combinations)
    progs[0] = "mov rax, 0x7fffffff\nlea r15, [rax+rsp]\nlea rcx, [2*rbx]\nmov rdx, 0x000000007fffffff\nadd qword [rbx+rsp], 5\nmov r9, 1"
    # a few programs long enough to make a library-managed buffer GROW (several times) while other threads create, use and destroy
    # their own instances: on the 32 KiB caller buffers the longest fail identically everywhere, on library buffers they grow
    progs_grow = list(progs)
    for k, nlines in enumerate((650, 900, 1500, 3000, 7000)):
        progs_grow[10 + 17 * k] = "\n".join("mov r%d, 0x11223344556677%02x" % (8 + (i % 8), i & 0xff) for i in range(nlines))
    # under ThreadSanitizer the long programs run on (32 KiB) caller buffers only (THREADS_BIG_EXT_ONLY): more than BUFSIZ of code per
    # instance, e.g. for the binary-file output, without mremap
    progs = list(progs)
    for k, nlines in enumerate((900, 1500, 2200)):
        progs[12 + 19 * k] = "\n".join("mov r%d, 0x11223344556677%02x" % (8 + (i % 8), (i * 7 + k) & 0xff) for i in range(nlines))
    firsts = sorted(set(l[0] for l in lines))
    pf = os.path.join(common.workdir(), "c18-progs.txt")
    # (not under ThreadSanitizer: it does not follow mremap, so memory that one thread's growth releases and another thread's
    # growth receives is reported as a race between the two)
    pfg = os.path.join(common.workdir(), "c18-progs-grow.txt")
    with open(pfg, "w") as f:
        for p in progs_grow:
            f.write(common.hx(p) + "\n")
    with open(pf, "w") as f:
        for p in progs:
            f.write(common.hx(p) + "\n")
    runs = []
    nrep = 20 if not full else 500
    for k in range(nrep):
        T = [2, 4, 8, 16][k % 4]
        iters = 1500 if not full else 4000
        runs.append(("tsan", tsan, T, iters, common.SEED * 1000 + k, (k % 3) * 7))
    for k in range(4 if not full else 40):
        runs.append(("asan", asan, [4, 16][k % 2], 3000, common.SEED * 77 + k, 3))
    cold = common.build("cold", main="threads.c")
    ncold = 3000 if not full else 40000
    for k in range(2 if not full else 8):
        runs.append(("cold", cold, 8 if k % 2 == 0 else 16, 0, common.SEED * 13 + k, 0, ncold))
    env = dict(os.environ)
    env.update(common.SAN_ENV)
    env["TSAN_OPTIONS"] = "halt_on_error=0:second_deadlock_stack=1:exitcode=0:history_size=4"
    tdir = os.path.join(common.workdir(), "c18-files")
    os.makedirs(tdir, exist_ok=True)
    env["THREADS_DIR"] = tdir  # thread-private files for the file entry points and asm_create_bin_file

    # the single-threaded reference tables (one per program list), computed once by the uninstrumented build and loaded by every run
    reff = {pf: pf + ".ref", pfg: pfg + ".ref"}
    for progfile, rfile in reff.items():
        rr = subprocess.run([cold, progfile, "1", "0", "1", "0"], capture_output=True, text=True, env=dict(env, THREADS_REF_FILE=rfile, THREADS_REF_SAVE="1"), timeout=600)
        if not os.path.exists(rfile):
            raise common.HarnessError("reference table not written: " + rr.stdout[-300:] + rr.stderr[-300:])
    gap_jobs = [j for j in runs if j[0] == "tsan"][:2 if not full else 8] + [j for j in runs if j[0] == "asan"][:1 if not full else 4]
    timeouts = [0]

    def go(job):
        fl, binary, T, iters, seed, stag = job[:6]
        extra = [str(job[6])] if len(job) > 6 else []
        if timeouts[0] >= 2:  # two runs hit the (100x) time bound: the remaining ones are not started (inconclusive, like a timeout)
            return -999, "", "skipped after two timeouts"
        try:
            e2 = dict(env, THREADS_BIG_EXT_ONLY="1") if fl == "tsan" else dict(env)
            e2["THREADS_REF_FILE"] = reff[pf if fl == "tsan" else pfg]
            if job in gap_jobs:
                e2["THREADS_GAP"] = "1"  # this run starts with the gap trials (exact numbers of calls by neighbour threads between two uses)
            r = subprocess.run([binary, pf if fl == "tsan" else pfg, str(T), str(iters), str(seed), str(stag)] + extra, capture_output=True, text=True, env=e2, timeout=max(300, 0.04 * (job[6] if len(job) > 6 else 0)), errors="replace")  # (about 10 ms per cold-start trial)
            return r.returncode, r.stdout, r.stderr
        except subprocess.TimeoutExpired:
            timeouts[0] += 1
            return -999, "", "timeout"

    # TSan runs are CPU heavy: run a few in parallel
    with ThreadPoolExecutor(max_workers=4) as ex:
        outs = list(ex.map(go, runs))
    stats = {"runs": len(runs), "tsan_runs": nrep, "thread_ops": 0, "tsan_report_blocks": 0, "programs": len(progs), "first_letters_covered": "".join(firsts),
             "threads_x_iterations": sorted(set((j[2], j[3]) for j in runs)), "reference_entries_ok": 0}
    for job, (rc, out, err) in zip(runs, outs):
        fl, binary, T, iters, seed, stag = job[:6]
        v.count()
        if fl == "cold" and rc != -999:
            kl = [l for l in out.splitlines() if l.startswith("K ")]
            case = {"key": "cold-start trials T<=%d seed=%d" % (T, seed), "fam": "threads_cold", "flavour": fl, "threads": T}
            if not kl:
                v.violation(case, "crash:exit=%s" % rc, (out[-500:] + "\n" + err[-1500:]))
                continue
            k = kl[0].split()
            stats["cold_start_processes"] = stats.get("cold_start_processes", 0) + int(k[1])
            stats["cold_start_ops"] = stats.get("cold_start_ops", 0) + int(k[2])
            if int(k[3]):
                ms = [l for l in out.splitlines() if l.startswith(("M cold", "E cold"))]
                v.violation(case, "cold-start:result-differs-from-single-threaded-reference", "%s of %s first operations differ\n%s" % (k[3], k[2], "\n".join(ms[:6])))
            else:
                v.distinct((fl, T, seed))
            continue
        case = {"key": "%s T=%d iters=%d seed=%d" % (fl, T, iters, seed), "fam": "threads", "flavour": fl, "threads": T}
        if rc == -999:
            v.inconclusive.append({"why": "timeout", "case": case["key"]})
            continue
        tl = [l for l in out.splitlines() if l.startswith("T ")]
        for gl in [l for l in out.splitlines() if l.startswith("G ")]:
            stats["gap_trials"] = stats.get("gap_trials", 0) + int(gl.split()[1])
        reports = tsan_reports(err) if fl == "tsan" else []
        stats["tsan_report_blocks"] += len(reports)
        sig = common.san_summary(err) if fl == "asan" else None
        if not tl:
            v.violation(case, sig or ("crash:exit=%s" % rc), (out[-500:] + "\n" + err[-1500:]))
            continue
        t = tl[0].split()
        stats["thread_ops"] += int(t[3])
        stats["reference_entries_ok"] = int(t[5])
        bad = False
        for kind, key, blk in reports:
            bad = True
            v.violation(dict(case, key="tsan %s in %s" % (kind, key)), "tsan:%s@%s" % (kind.replace(" ", "-"), key), blk)
        if int(t[4]):
            bad = True
            ms = [l for l in out.splitlines() if l.startswith("M ")]
            v.violation(case, "result-differs-from-single-threaded-reference", "\n".join(ms[:5]))
        if sig:
            bad = True
            v.violation(case, sig, err[-1500:])
        if not bad:
            v.distinct((fl, T, seed))
            v.sample({"build": fl, "threads": T, "iterations_per_thread": iters, "operations": int(t[3]), "mismatches": 0, "tsan_reports": 0})
    v.cov["rule"] = ("N in {2,4,8,16} threads released by a barrier with staggered starts, each running create -> random option setters (individual or asm_set_all / asm_sib) -> assemble (plain / chunk fitting / counting; through the string entry points, the FILE entry points on a thread-private file or the deprecated aliases; debug output on in one call of eight; 200 programs over lines of every "
                     "first letter of the lookup tables, some failing, some of 650-7000 lines) (in a quarter of the iterations in two calls split at a line boundary; in half of them while a SECOND live instance of the same thread with other options holds and keeps another program) -> in half of the iterations asm_create_bin_file to a thread-private path, read back and compared with the code -> compare with the single-threaded reference -> destroy on private buffers; plus gap trials (a victim thread uses an instance, destroys it and uses a new one with other options while two neighbour threads make EXACTLY D setter calls / create+destroy pairs in between, D = 2^8, 2^15, 2^16, 2^17 -16..+16); plus thousands of COLD starts (a fresh process per trial whose first library calls are made concurrently by 2-16 threads released by a spin barrier with 0-5000 ns skew, uninstrumented -O0 build), with random sched_yield/nanosleep between API calls; the reference is "
                     "computed in a forked child so the first-ever asm_create_instance calls (the only moment the global tables change value) overlap in the threads; %d runs under ThreadSanitizer + runs under ASan; "
                     "reports de-duplicated by library frames; distinct = clean (build, threads, seed) runs" % nrep)
    v.cov["exhaustive"] = False
    v.cov.update(stats)
    v.assumptions += ["schedules are sampled, not enumerated: the claim is 'no race or divergence observed in these runs'", "TSan only sees interleavings that occurred (its happens-before analysis generalises slightly)"]
    return v.finish(None, stats["thread_ops"] > 10000 and stats["reference_entries_ok"] > 1000, "too few thread operations: %r" % stats)
