"""C17 - OS resource failures are reported, never crash or corrupt (fault enumeration via ld --wrap failpoints)."""
import os
from .. import common

SYMS = ["malloc", "mmap", "mremap", "munmap", "open", "fstat", "fopen", "fwrite", "fclose"]
MUST_REPORT = {"malloc", "mmap", "mremap", "open", "fstat", "fopen", "fwrite", "fclose"}  # munmap: only "no crash"


def long_prog(nbytes, tagbyte):
    n = nbytes // 10
    return "\n".join("mov rax, 0x11223344556600%02x" % ((tagbyte + i) & 0xff) for i in range(n))


def scenarios(wd):
    """name -> list of driver commands; '@' marks where the failpoint is armed (after wrap reset)"""
    S = {}
    first = long_prog(300, 1)
    big = long_prog(20000, 7)
    fpath = os.path.join(wd, "c17-3pages.asm")
    with open(fpath, "w") as f:
        f.write(("mov rax, rbx ; pad pad pad\n" * 470)[:3 * 4096])
    S["S1-create-internal"] = ["@", "new 0 int", "asm 0 %s" % common.hx("ret"), "del 0"]
    S["S1b-create-external"] = ["@", "new 0 ext 256 H 0xcc", "asm 0 %s" % common.hx("ret"), "del 0"]
    S["S2-grow-plain"] = ["new 0 int", "asm 0 %s" % common.hx(first), "sumoff 0", "@", "asm 0 %s" % common.hx(big), "sum 0 0 300", "del 0"]
    S["S3-grow-fitting"] = ["new 0 int", "chunk 0 16", "asm 0 %s" % common.hx(first), "sumoff 0", "@", "asm 0 %s" % common.hx(big), "sum 0 0 300", "del 0"]
    S["S3-grow-counting"] = ["new 0 int", "asm 0 %s" % common.hx(first), "sumoff 0", "@", "cnt 0 16 %s" % common.hx(big), "sum 0 0 300", "del 0"]
    S["S4-file"] = ["new 0 int", "asm 0 %s" % common.hx(first), "sumoff 0", "@", "file 0 %s" % fpath, "sum 0 0 300", "del 0"]
    S["S4-file-counting"] = ["new 0 int", "asm 0 %s" % common.hx(first), "sumoff 0", "@", "filecnt 0 8 %s" % fpath, "sum 0 0 300", "del 0"]
    S["S5-bin"] = ["new 0 int", "asm 0 %s" % common.hx(first), "sumoff 0", "@", "bin 0 %s" % os.path.join(wd, "c17-out.bin"), "sum 0 0 300", "dump 0 0 300", "del 0"]
    S["S5-bin-devfull"] = ["new 0 int", "asm 0 %s" % common.hx(first), "sumoff 0", "@", "bin 0 /dev/full", "sum 0 0 300", "del 0"]
    S["S6-fail-then-continue-bin"] = ["new 0 int", "asm 0 %s" % common.hx(first), "sumoff 0", "asm 0 %s" % common.hx("bogus"), "setoff 0 300", "@", "asm 0 %s" % common.hx(big),
                                      "sum 0 0 300", "setoff 0 300", "bin 0 %s" % os.path.join(wd, "c17-out6.bin"), "dump 0 0 300", "del 0"]
    # a long assembly (200 kB in ten calls, about 33 growths): growth behaviour that only changes beyond some size, and what
    # happens when assembly simply CONTINUES after the refused growth (each later part must land intact at its place)
    parts = [long_prog(20000, 11 + 3 * i) for i in range(10)]
    cmds = ["new 0 int", "asm 0 %s" % common.hx(first), "sumoff 0", "@"]
    for i, pt in enumerate(parts):
        # every part is assembled, the offset put back to where the part started, and the part assembled again: what a caller does
        # who retries after a failure (without a failure the second call rewrites the same bytes)
        cmds += ["asm 0 %s" % common.hx(pt), "setoff 0 %d" % (300 + 20000 * i), "asm 0 %s" % common.hx(pt)]
    cmds += ["sum 0 %d %d" % (300 + 20000 * i, 300 + 20000 * (i + 1)) for i in range(10)] + ["sum 0 0 300", "del 0"]
    S["S7-grow-long-continue"] = cmds
    # a file that is longer than fstat said (it grew in between; also what a pipe or a /proc file looks like): whatever the library
    # reads of it without a fault, a refused operation while reading must not pass for the end of the file
    gpath = os.path.join(wd, "c17-grown.asm")
    with open(gpath, "w") as f:
        f.write("mov rax, rbx ;..\n" * 2560)  # 16 bytes per line, 40 kB; the reported size 4096 ends on a line boundary
    S["S8-file-longer-than-stat"] = ["new 0 int", "asm 0 %s" % common.hx(first), "sumoff 0", "wrap fstatshrink 4096", "@", "file 0 %s" % gpath, "sumoff 0", "sum 0 0 300", "del 0"]
    S["S8-filecnt-longer-than-stat"] = ["new 0 int", "asm 0 %s" % common.hx(first), "sumoff 0", "wrap fstatshrink 4096", "@", "filecnt 0 8 %s" % gpath, "sumoff 0", "sum 0 0 300", "del 0"]
    return S


def build_script(cmds, fail=None, uniq=""):
    out = ["wrap reset"]
    for c in cmds:
        if c.startswith("bin ") and not c.endswith("/dev/full"):
            c = c + uniq  # one output file per run: runs execute in parallel
        if c == "@":
            # counters restart here so k counts calls of the affected operation only... keep global: arm k-th call from now
            if fail:
                out.append("wrap fail %s %d" % fail)
            else:
                out.append("wrap forcemove 0")
        else:
            out.append(c)
    out.append("wrapreport")
    return out


def run(tier):
    v = common.Verdict("C17", tier, level="fault_enumeration")
    binary = common.build("wrap")
    wd = common.workdir()
    S = scenarios(wd)
    names = sorted(S)
    # counting runs
    base = common.run_cases(binary, [build_script(S[n]) for n in names], tag="c17c")
    counts = {}
    ref = {}
    for n, r in zip(names, base):
        if r["crash"]:
            v.violation({"key": "baseline " + n, "fam": "fault", "scenario": n}, r["crash"]["sig"], r["crash"]["stderr"][-1000:])
            continue
        w = r["records"][-1]
        counts[n] = {s: int(w.split(" %s=" % s)[1].split("/")[0]) for s in SYMS}
        ref[n] = r["records"]
    # the armed counter counts calls made after '@' only if we subtract the calls before it: measure with a second counting run up to '@'
    pre = {}
    precases = []
    for n in names:
        cmds = S[n][:S[n].index("@")]
        precases.append(build_script(cmds + ["@"]))
    for n, r in zip(names, common.run_cases(binary, precases, tag="c17p")):
        w = r["records"][-1]
        pre[n] = {s: int(w.split(" %s=" % s)[1].split("/")[0]) for s in SYMS}
    jobs = []
    for n in names:
        if n not in counts:
            continue
        for s in SYMS:
            k_total = counts[n][s] - pre[n][s]
            for k in range(1, k_total + 1):
                jobs.append((n, s, k))
    res = common.run_cases(binary, [build_script(S[n], (s, k), ".%s%d" % (s, k)) for (n, s, k) in jobs], tag="c17f")
    stats = {"scenarios": len(names), "failpoints": len(jobs), "fired": 0, "per_symbol": {s: 0 for s in SYMS}, "calls_per_scenario": {n: {s: counts[n][s] - pre[n][s] for s in SYMS if counts[n][s] - pre[n][s]} for n in counts}}
    for (n, s, k), r in zip(jobs, res):
        v.count()
        case = {"key": "%s fail %s#%d" % (n, s, k), "fam": "fault", "scenario": n, "sym": s, "k": k}
        if r["crash"]:
            v.violation(case, r["crash"]["sig"], (r["crash"]["what"] + "\n" + r["crash"]["stderr"][-1200:]))
            continue
        recs = r["records"]
        w = recs[-1]
        inj = int(w.split(" %s=" % s)[1].split("/")[1].split()[0])
        if inj != 1:
            v.inconclusive.append({"why": "failpoint did not fire", "case": case["key"], "report": w})
            continue
        stats["fired"] += 1
        stats["per_symbol"][s] += 1
        cmds = S[n]
        at = cmds.index("@")
        # records: [0]=wrap reset, then one per command (the '@' line becomes a 'wrap fail' command with its own record)
        rec_of = lambda i: recs[1 + i]
        bad = None
        # find the first API record after '@' that reports failure; every injected failure (except munmap) must be reported by some call
        reported = False
        for i in range(at + 1, len(cmds)):
            rr = rec_of(i).split()
            c0 = cmds[i].split()[0]
            if c0 == "new" and rr[0] == "N" and rr[1] == "0":
                reported = True
                break
            if c0 in ("asm", "cnt", "file", "filecnt") and rr[0] == "A" and rr[1] != "0":
                reported = True
                break
            if c0 == "bin" and rr[0] == "B" and rr[1] != "0":
                reported = True
                break
        if not bad and not reported:
            # whatever was (not) reported: the observable end state must then be that of the fault-free run
            for i in range(at + 1, len(cmds)):
                if cmds[i] == "sumoff 0" and rec_of(i).split()[1:] != ref[n][1 + i].split()[1:]:
                    bad = ("silent-failure-changes-result", "after the injected %s failure no call failed, but offset/code %s differ from the fault-free run %s" % (s, rec_of(i), ref[n][1 + i]))
        if not bad and s in MUST_REPORT and not reported:
            bad = ("failure-not-reported", "no call after the injected %s failure returned NULL/EXIT_FAILURE: %s" % (s, " | ".join(recs[at + 1:at + 5])))
        # earlier code intact; and code assembled by the calls after the failing one is where it belongs
        if not bad and "sumoff 0" in cmds[:at]:
            before = rec_of(cmds.index("sumoff 0")).split()
            # a part whose RETRY failed as well is exempt (partial code), every other fingerprint must equal the fault-free run
            exempt = set()
            pos = 300
            for i in range(at + 1, len(cmds)):
                if cmds[i].startswith("asm 0 ") and cmds[i - 1].startswith("setoff 0 "):
                    start = int(cmds[i - 1].split()[2])
                    if rec_of(i).split()[1] != "0":
                        exempt.add((start, start + 20000))
            for i in range(at + 1, len(cmds)):
                if cmds[i].startswith("sum 0 "):
                    lo, hi = int(cmds[i].split()[2]), int(cmds[i].split()[3])
                    if (lo, hi) in exempt:
                        continue
                    full = ref[n][1 + i].split()[1]
                    if rec_of(i).split()[1] != full:
                        bad = ("earlier-code-corrupted" if hi <= 300 else "code-after-failure-misplaced", "fingerprint of [%d,%d) %s != %s" % (lo, hi, rec_of(i).split()[1], full))
                        break
        # bin success => file complete
        if not bad:
            for i in range(at + 1, len(cmds)):
                if cmds[i].startswith("bin ") and rec_of(i).split()[1] == "0":
                    path = cmds[i].split()[2]
                    if path != "/dev/full":
                        path += ".%s%d" % (s, k)
                    dump = [rec_of(j).split()[1] for j in range(i, len(cmds)) if cmds[j].startswith("dump 0 0 300")]
                    if path != "/dev/full" and dump:
                        try:
                            data = open(path, "rb").read().hex()
                        except OSError:
                            data = None
                        if data != dump[0]:
                            bad = ("bin-success-but-file-incomplete", "file has %s bytes" % (None if data is None else len(data) // 2))
                    elif path == "/dev/full":
                        bad = ("bin-success-on-full-device", rec_of(i))
        if bad:
            v.violation(case, bad[0], bad[1])
        else:
            v.distinct((n, s, k))
            if len(v.cov["samples"]) < 12 and k == 1:
                v.sample({"scenario": n, "failpoint": "%s#%d" % (s, k), "records_after_fault": recs[at + 1:at + 4], "report": w.strip()})
    # the real ENOSPC path without injection
    for n, r in zip(names, base):
        if n == "S5-bin-devfull" and not r["crash"]:
            v.count()
            b = [x for x in r["records"] if x.startswith("B ")][0]
            if b.split()[1] == "0":
                v.violation({"key": n + " (no injection)", "fam": "fault", "scenario": n}, "bin-success-on-full-device", b)
            else:
                v.distinct((n, "real-ENOSPC"))
    v.cov["rule"] = ("fault enumeration: for each of %d API scenarios (create on internal/caller buffer; 20 kB assembly with 3 growths in plain / fitting / counting mode; a 200 kB assembly in ten calls (about 33 growths) that continues after the refused growth; file and file-counting assembly of a 3-page file; "
                     "binary output to a file and to /dev/full; fail-then-continue-then-bin) a counting run records how often each of malloc, mmap, mremap, munmap, open, fstat, fopen, fwrite, fclose is called after the arming "
                     "point, then one run per (symbol, k) makes exactly that call fail with a realistic errno. Checked: no crash/sanitizer report, the failure is reported by NULL/EXIT_FAILURE (munmap: no crash only), "
                     "[0,300) assembled earlier is intact, the instance can be destroyed, bin EXIT_SUCCESS only with a complete file" % len(names))
    v.cov["exhaustive"] = True
    v.cov.update(stats)
    return v.finish(None, stats["fired"] >= 15 and stats["fired"] == len(jobs), "failpoints fired %d of %d" % (stats["fired"], len(jobs)))
