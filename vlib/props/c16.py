"""C16 - letter case, spacing, comments, labels and number base do not change the code."""
import re
from .. import common, isa, enc, corpus

NUM = re.compile(r"(?<![A-Za-z0-9_*])(-?)(0[xX][0-9a-fA-F]+|[0-9]+)(?![A-Za-z0-9*])")
PUNCT = re.compile(r"([,+\-*\[\]])")
COMMENTS = ["; comment", ";", " ; x: y", "\t; 100% [rax] mov", " ;; rax, rbx", "; trailing:colon % percent [ bracket"]
# words a comment may contain without meaning anything: directive names, mnemonics, registers, size keywords, punctuation
CWORDS = ["section", "global", "SECTION .text", "GLOBAL _start", "section.data", "globals", "label:", "mov rax, rbx", "ret", "nop", "0x10", "-1",
          "byte", "word", "dword", "qword", "short", "long", "near", "[rax+rbx*2]", "%macro", "%define x 1", ";", ",", "the", "counter", "load", "store",
          "bits 64", "default rel", "extern foo", "db 0x90", "times 4 nop", "align 16", "'quoted'", "\"dq\"", "\\", "#", "@", "!", "ymm0", "jmp 0x100"]


def gen_comment(rnd):
    body = " ".join(rnd.choice(CWORDS) for _ in range(rnd.randrange(1, 5)))
    if rnd.random() < 0.35:
        # a comment is free text: any byte except the line terminators and NUL (UTF-8 punctuation, Latin-1, control characters ...)
        k = rnd.randrange(3)
        if k == 0:
            extra = rnd.choice(["\u2014 em dash", "\u201cquoted\u201d", "caf\u00e9 \u2192 \u20ac", "\u00c0\u00ca\u00cd", "\u4e2d\u6587", "\u2026"]).encode("utf-8").decode("latin-1")
        elif k == 1:
            extra = "".join(chr(rnd.choice([b for b in range(0x80, 0x100)])) for _ in range(rnd.randrange(1, 6)))
        else:
            extra = "".join(chr(rnd.choice([b for b in range(1, 0x20) if b not in (10, 13)] + [0x7f])) for _ in range(rnd.randrange(1, 4)))
        pos = rnd.randrange(len(body) + 1)
        body = body[:pos] + extra + body[pos:]
    if rnd.random() < 0.04:
        body = body + " " + "long comment " * rnd.choice([8, 20, 80, 400])  # 100 .. 5000 characters
    return rnd.choice([";", " ;", "\t;", " ; ", ";;"]) + body


def rw_case(t, rnd):
    mode = rnd.randrange(3)
    if mode == 0:
        return t.upper()
    if mode == 1:
        return "".join(ch.upper() if rnd.random() < 0.5 else ch for ch in t)
    # upper-case only the mnemonic / only operands
    head, _, tail = t.partition(" ")
    return head.upper() + (" " + tail if tail else "") if rnd.random() < 0.5 else head + (" " + tail.upper() if tail else "")


def blanks(rnd, lo, hi):
    """lo..hi-1 blanks: spaces, or (one time in four) a mix of spaces and tabs; one time in twenty a LOT of them (the raw line may be
    far longer than 100 characters while its filtered length is unchanged)"""
    n = rnd.randrange(lo, hi)
    if rnd.random() < 0.05:
        n = rnd.choice([4, 9, 17, 40, 120]) if hi > 1 else n
    if rnd.random() < 0.75:
        return " " * n
    return "".join(rnd.choice(" \t") for _ in range(n))


def rw_space(t, rnd):
    head, sep, tail = t.partition(" ")
    if not tail:
        return head + blanks(rnd, 0, 3)
    tail = PUNCT.sub(lambda m: blanks(rnd, 0, 4) + m.group(1) + blanks(rnd, 0, 4), tail)
    # keyword / operand separators: widen existing single spaces
    tail = re.sub(r" ", lambda m: blanks(rnd, 1, 4), tail)
    return head + blanks(rnd, 1, 4) + tail + blanks(rnd, 0, 3)


def rw_frame(t, rnd):
    lead = rnd.choice(["", " ", "  ", "\t", "\t\t", " \t "]) if rnd.random() < 0.95 else rnd.choice([" " * 40, "\t" * 50, " \t" * 70])
    trail = gen_comment(rnd) if rnd.random() < 0.5 else rnd.choice(COMMENTS + ["", "  ", "\t"])
    return lead + t + trail


def rw_number(t, rnd):
    # one time in ten: pad ONE number of the line with as many leading zeros as the line-length limit (99 filtered characters) allows
    if rnd.random() < 0.1:
        ms = list(NUM.finditer(t))
        room = 99 - (len(t.replace(" ", "")) + 1)
        if ms and room >= 12:
            m = rnd.choice(ms)
            z = min(room, rnd.choice([room, room - 1, 27, 28, 29, 30, 45, 60]))
            body = m.group(2)
            if body[:2].lower() == "0x":
                body = body[:2] + "0" * z + body[2:]
            else:
                body = "0" * z + body
            return t[:m.start(2)] + body + t[m.end(2):]

    def f(m):
        sign, body = m.group(1), m.group(2)
        val = int(body[2:], 16) if body[:2].lower() == "0x" else int(body, 10)
        k = rnd.randrange(5)
        if k == 4:
            s = "0" * rnd.randrange(1, 3) + "%d" % val  # decimal with leading zeros (not octal: nasm reads 010 as ten, too)
        elif k == 0:
            s = "0x%x" % val
        elif k == 1:
            s = "%d" % val
        elif k == 2:
            s = "0x" + "0" * rnd.randrange(1, 4) + "%x" % val
        else:
            s = "0X%X" % val
        return sign + s
    return NUM.sub(f, t)


REWRITES = [("case", rw_case), ("space", rw_space), ("frame", rw_frame), ("number", rw_number)]


def run(tier):
    v = common.Verdict("C16", tier)
    full = tier == "thorough"
    rnd = common.rng("c16")
    binary = common.build("asan")
    cases = isa.gen_int_regs()
    if not full:
        cases = rnd.sample(cases, 15000)
    cases += isa.gen_vec_regs(corners_only=True, rnd=rnd, frac=0.0)
    cases += isa.gen_mem(False, rnd, per_class=300 if not full else 2500)
    cases += isa.gen_imm(rnd, False)
    cases += [c for c in isa.gen_branch(rnd, 8) if full or c["d"] % 2 == 0]
    cases += isa.gen_far(rnd)
    items, meta = [], []
    for c in cases:
        t = c["text"]
        movsmart = c["fam"] == "imm_ri" and c["mn"] == "mov" and c["w"] == 64
        mask = "111" if movsmart else (enc.DEFAULT if rnd.random() < 0.7 else rnd.choice(enc.COMBOS))
        if movsmart and mask[0] == "2":
            mask = "1" + mask[1:]
        variants = []
        nvar = 3 if not full else 10
        for _ in range(nvar):
            k = rnd.randrange(5)
            if k < 4:
                name, f = REWRITES[k]
                variants.append((name, f(t, rnd)))
            else:
                t2, names = t, []
                chosen = set(n for n, _ in rnd.sample(REWRITES, rnd.randrange(2, 5)))
                # fixed order: numbers are respelt on the compact text (scales are never touched), then spacing, case, framing
                for name, f in (REWRITES[3], REWRITES[1], REWRITES[0], REWRITES[2]):
                    if name in chosen:
                        t2 = f(t2, rnd)
                        names.append(name)
                variants.append(("+".join(names), t2))
        if full:
            variants += [(n, f(t, rnd)) for n, f in REWRITES]
        items.append((mask, t, 0))
        meta.append((c, None, t, mask))
        for name, t2 in variants:
            if t2 != t:
                end = rnd.choice(["", "\n", "\r\n", "\r\n"])
                items.append((mask, t2 + end, 0))
                meta.append((c, name, t2 + end, mask))
    res = common.run_lines(binary, items, tag="c16")
    base = None
    stats = {"lines": len(cases), "rewritten_variants": 0, "by_rewriting": {}, "accepted_pairs": 0, "rejected_pairs": 0}
    for (c, name, text, mask), r in zip(meta, res):
        if name is None:
            base = r
            continue
        v.count()
        stats["rewritten_variants"] += 1
        stats["by_rewriting"][name.split("+")[0] if "+" not in name else "composed"] = stats["by_rewriting"].get(name.split("+")[0] if "+" not in name else "composed", 0) + 1
        case = {k: x for k, x in c.items() if k not in ("exp", "alt", "nasm")}
        case.update({"key": "%s: %r vs %r [%s]" % (name, text, c["text"], mask), "ofam": c["fam"], "fam": "rewrite", "rewriting": name, "combo": mask, "variant": text})
        if "crash" in r:
            v.violation(case, r["crash"]["sig"], r["crash"]["stderr"][-800:])
            continue
        if "crash" in base:
            continue  # the original itself crashes: reported by the properties that own that line
        b0 = (base["rc"], base["bytes"] if base["rc"] == 0 else "")
        b1 = (r["rc"], r["bytes"] if r["rc"] == 0 else "")
        if b0 != b1:
            kinds = set(name.split("+"))
            sym = "rewrite-changes-%s:%s" % ("rc" if b0[0] != b1[0] else "bytes", ",".join(sorted(kinds)))
            v.violation(case, sym, "original %r rewritten %r" % (b0, b1))
        else:
            stats["accepted_pairs" if b0[0] == 0 else "rejected_pairs"] += 1
            v.distinct((c["text"], text))
            if v.cov["evaluations"] % 40000 == 1:
                v.sample({"original": c["text"], "rewritten": text, "rewriting": name, "opts": mask, "bytes": b1[1]})
    # ... and in the other assembly modes / contexts: a sample of the rewritten spellings goes through chunk fitting (padded, encoded a
    # second time), the counting entry point (chunk size >= 2 and < 2), and the contexts of enc.context_crossing (library buffer at a
    # far offset, CRLF program, twice on one instance): the bytes must be those of the CANONICAL spelling alone
    from .. import enc as _enc
    accx, last_base = [], None
    for (c, name, text, mask), r in zip(meta, res):
        if name is None:
            last_base = r
        elif "crash" not in r and "crash" not in last_base and last_base["rc"] == 0 and r["rc"] == 0 and last_base["bytes"] and "\n" not in text.rstrip("\r\n") and ";" not in text:
            accx.append(({"text": text.rstrip("\r\n"), "fam": "rewrite", "canonical": c["text"]}, mask, last_base["bytes"]))
    accx = rnd.sample(accx, min(len(accx), 1500 if not full else 30000))
    stats["rewritten_other_modes_ok"] = _enc.mode_crossing(v, binary, accx)
    stats["rewritten_other_contexts_ok"] = _enc.context_crossing(v, binary, accx)
    # programs with comment / label / directive / blank lines inserted at every position
    rep = corpus.representative(rnd, 1, cap=120)
    alone = corpus.accepted_alone(binary, sorted(set(c["text"] for c in rep)))
    good = sorted(alone)
    items, meta = [], []
    nprog = 150 if not full else 3000
    # besides the fixed kinds: generated label lines whose NAMES follow NASM's identifier grammar (first character a letter, '_', '?' or
    # '.', then letters, digits and _ $ # @ ~ . ?; 1-90 characters; also names that are mnemonics, registers or look like numbers), in
    # the shapes 'name:', 'name :', indented, followed by blanks / a comment; section and global lines with attributes, several names,
    # trailing comments
    FIRST = "abcdefghijklmnopqrstuvwxyzABCDEFGHIJKLMNOPQRSTUVWXYZ_?."
    REST = FIRST + "0123456789$#@~"

    def gen_skip_line():
        kind = rnd.randrange(10)
        if kind < 6:
            n = rnd.choice([1, 2, 3, 5, 8, 13, 30, 60, 90])
            name = rnd.choice(FIRST) + "".join(rnd.choice(REST) for _ in range(n - 1))
            if kind == 5:
                name = rnd.choice(["add", "mov", "ret", "rax", "r8", "xmm0", "qword", "short", "x10", "a0x10", "..@42.loop", "?skip", "fn#2", "tmp~1", "memcpy@plt", "$dollar" if False else "_$", "L.1.2", "section_", "global1"])
            return rnd.choice(["%s:", "%s :", "  %s:", "\t%s:", "%s:  ", "%s:\t", "%s: ; c", "%s:;c", "%s: ; mov rax, rbx", "%s  :  ; x"]) % name
        if kind < 8:
            return rnd.choice(["section .%s", "SECTION .%s", "section .%s progbits alloc exec nowrite align=16", "section .%s ; c", "\tsection .%s\t", "Section .%s align=4096"]) % rnd.choice(["text", "data", "bss", "rodata", "text.hot", "note.GNU-stack"])
        return rnd.choice(["global %s", "GLOBAL %s", "global %s, g2, g3", "global %s:function", "global %s ; exported", "\tglobal\t%s", "global %s:data 8"]) % rnd.choice(["f", "_start", "main", "?x", "a.b", "fn#2", "mov"])
    for k in range(nprog):
        prog = [rnd.choice(good) for _ in range(rnd.randrange(1, 7))]
        expect = "".join(alone[l] for l in prog)
        for pos in range(len(prog) + 1):
            for ins in corpus.SKIP_LINES + [gen_skip_line() for _ in range(10)]:
                p2 = prog[:pos] + [ins] + prog[pos:]
                sep = "\r\n" if (k + pos) % 3 == 0 else "\n"
                items.append((enc.DEFAULT, sep.join(p2), 0))
                meta.append((prog, pos, ins, expect))
    res = common.run_lines(binary, items, tag="c16p")
    stats["program_insertions"] = len(items)
    for (prog, pos, ins, expect), r in zip(meta, res):
        v.count()
        case = {"key": "insert %r at %d of %r" % (ins, pos, prog), "fam": "insert", "inserted": ins}
        if "crash" in r:
            v.violation(case, r["crash"]["sig"], r["crash"]["stderr"][-800:])
        elif r["rc"] != 0 or r["bytes"] != expect:
            v.violation(case, "inserted-line-changes-%s" % ("rc" if r["rc"] else "bytes"), "got %s want %s" % (r.get("bytes"), expect))
        else:
            v.distinct(("ins", tuple(prog), pos, ins))
    v.cov["rule"] = ("metamorphic: every line of the C01-C05 corpora (sampled in quick) x seeded rewritings {letter case of mnemonic/registers/keywords/hex digits/0X, 0-3 blanks around operands, commas, + - * and inside brackets, "
                     "leading blanks/tabs, trailing ';' comments with ':' '%' '[' inside, LF/CRLF ends, decimal <-> hex <-> leading zeros for immediates and displacements} and compositions of them, under default and "
                     "sampled option combos ('mov r64,imm' under NASM mov mode, where spelling is documented not to matter); plus programs with blank/comment/label/section/global lines inserted at every position (33 fixed kinds and generated ones: label names from NASM's identifier grammar incl. $ # @ ~ . ?, 1-90 characters, names equal to mnemonics / registers; section / global lines with attributes, several names, comments). "
                     "Oracle: identical return code and bytes")
    v.cov["exhaustive"] = False
    v.cov.update(stats)
    return v.finish(None, stats["accepted_pairs"] > 20000, "too few accepted pairs: %r" % stats)
