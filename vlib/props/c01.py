"""C01 - integer register forms encode exactly the instruction written."""
from .. import common, isa, enc


def run(tier):
    v = common.Verdict("C01", tier)
    binary = common.build("asan")
    rnd = common.rng("c01")
    cases = isa.gen_int_regs()
    # BMI2/ADX register forms are decided exhaustively by C04; C01 keeps a corner sample
    cases += isa.gen_bmi_regs(corners_only=True, rnd=rnd, frac=0.0)
    # the same forms written with a (redundant) size keyword in front of a register operand
    cases += isa.gen_int_regs_kw(rnd, 4000 if tier != "thorough" else 60000)
    frac = 1.0 if tier == "thorough" else 0.1

    def combos_for(c):
        if frac >= 1.0:
            return enc.COMBOS
        return [enc.DEFAULT] + [m for m in enc.COMBOS if m != enc.DEFAULT and rnd.random() < frac]

    st = enc.run(v, cases, binary, combos_for)
    # ---- execution monitor (vlib/sem.py): the CPU must compute what the written instruction means
    from .. import sem
    plain = common.build("plain")
    strata = {}
    for c in cases:
        strata.setdefault((c["mn"], c["w"], c["form"]), []).append(c)
    picked = []
    per = 12 if tier == "quick" else 120
    for k in sorted(strata, key=str):
        g = strata[k]
        picked += g if len(g) <= per else rnd.sample(g, per)
    ex, exmeta = [], []
    for c in picked:
        pr = sem.program(c, rnd)
        if pr is None:
            continue
        prog, want = pr
        ex.append(["new 0 int", "asm 0 %s" % common.hx("\n".join(prog)), "exec 0"])
        exmeta.append((c, prog, want))
    exres = common.run_cases(plain, ex, tag="c01x")
    exec_ok = 0
    modelled = set()
    for (c, prog, want), cmds, r in zip(exmeta, ex, exres):
        v.count()
        cc = {k: x for k, x in c.items() if k not in ("exp", "alt")}
        cc.update({"key": "exec " + c["text"], "fam": "exec_" + c["fam"], "script": cmds})
        if r["crash"]:
            v.violation(cc, r["crash"]["sig"], r["crash"]["stderr"][-600:])
            continue
        a, e = r["records"][1].split(), r["records"][2].split()
        if a[1] != "0":
            v.violation(cc, "exec:rejected", r["records"][1])
        elif e[:2] != ["V", "ok"] or int(e[2], 16) != want:
            v.violation(cc, "exec:computes-differently", "program %s -> %s, model 0x%x" % ("; ".join(prog), " ".join(e), want))
        else:
            exec_ok += 1
            modelled.add(c["mn"])
            v.distinct(("exec", c["text"]))
    st["executions"] = len(ex)
    st["executions_ok"] = exec_ok
    st["mnemonics_executed"] = len(modelled)
    v.cov["rule"] = ("every register-only general-purpose form of the committed spec (vlib/isa.py) x every register tuple of every legal width; "
                     "default options for all, the other 11 option combinations for %s of the lines; a case is non-trivial/distinct when the "
                     "library accepted it and both decoders read the emitted bytes back as the expected tuple (distinct = (text, bytes)); plus JIT execution of a stratified sample against small Python models of the operations (vlib/sem.py)" % ("all" if frac >= 1 else "a seeded 10%"))
    v.cov["exhaustive"] = frac >= 1.0
    v.assumptions += ["LLVM-MC and libopcodes decode correctly where nasm's encoding of the same line validates them",
                      "semantics of the CPU executing the bytes are not re-checked"]
    floor = st["held"] > 1000 and st["reference_validated_cases"] >= 0.999 * st["cases"]
    return v.finish(st, floor, "too few judged cases or reference side not validated: %r" % st)
