#!/usr/bin/env python3
"""tools/mkmutant.py <name> <relpath> <old> <new> [<relpath> <old> <new> ...]
Creates mutants/<name>.diff (p1, relative to the repo root) by exact string replacement on a scratch copy of /repo's working tree."""
import os, shutil, subprocess, sys, tempfile
name, rest = sys.argv[1], sys.argv[2:]
V = os.path.dirname(os.path.dirname(os.path.abspath(__file__)))
tmp = tempfile.mkdtemp(prefix="al-mk-")
try:
    for d in ("a", "b"):
        os.makedirs(os.path.join(tmp, d))
        subprocess.check_call("cp -r /repo/src /repo/tools %s/" % os.path.join(tmp, d), shell=True)
    for i in range(0, len(rest), 3):
        rel, old, new = rest[i:i + 3]
        p = os.path.join(tmp, "b", rel)
        s = open(p).read()
        old = old.encode().decode("unicode_escape")
        new = new.encode().decode("unicode_escape")
        if s.count(old) != 1:
            print("pattern occurs %d times in %s" % (s.count(old), rel))
            sys.exit(1)
        open(p, "w").write(s.replace(old, new))
    r = subprocess.run(["diff", "-ru", "a", "b"], cwd=tmp, capture_output=True, text=True)
    out = os.path.join(V, "mutants", name + ".diff")
    open(out, "w").write(r.stdout)
    print("wrote", out, len(r.stdout.splitlines()), "lines")
finally:
    shutil.rmtree(tmp, ignore_errors=True)
