"""C04 - MMX/SSE/AVX/AVX2/BMI2 forms: prefixes, VEX fields, registers."""
from .. import common, isa, enc


def run(tier):
    v = common.Verdict("C04", tier)
    binary = common.build("asan")
    rnd = common.rng("c04")
    full = tier == "thorough"
    cases = isa.gen_vec_regs(corners_only=not full, rnd=rnd, frac=0.05)
    cases += isa.gen_bmi_regs(corners_only=not full, rnd=rnd, frac=0.05)
    cases += isa.gen_adx()

    def combos_for(c):
        if full:
            return [enc.DEFAULT, "000", "100"]
        return [enc.DEFAULT] + ([rnd.choice(enc.COMBOS)] if rnd.random() < 0.1 else [])

    st = enc.run(v, cases, binary, combos_for)
    v.cov["rule"] = ("every vector / VEX register-only form of the committed spec x register tuples: %s; VEX.L observed as xmm/ymm names, VEX.W as 32/64-bit "
                     "register names, vvvv and inverted R/X/B as register numbers; distinct = (text, bytes) accepted and read back as expected by both decoders"
                     % ("the complete register product" if full else "all two-operand tuples, all three-operand tuples with each operand in {0,7,8,15} plus a seeded 5%"))
    v.cov["exhaustive"] = full
    v.assumptions += ["LLVM-MC and libopcodes decode correctly where nasm's encoding of the same line validates them"]
    floor = st["held"] > 1000 and st["reference_validated_cases"] >= 0.999 * st["cases"]
    return v.finish(st, floor, "too few judged cases or reference side not validated: %r" % st)
