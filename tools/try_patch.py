#!/usr/bin/env python3
"""tools/try_patch.py <patch.diff> <Cxx> [<Cyy> ...] [--tier quick]
Applies a patch to a scratch copy of /repo (outside /repo and /verif), runs the given checks
against it (VERIF_REPO override) and removes the copy. Prints one line per check."""
import os, shutil, subprocess, sys, tempfile
args = [a for a in sys.argv[1:] if not a.startswith("--")]
tier = "quick"
if "--tier" in sys.argv:
    tier = sys.argv[sys.argv.index("--tier") + 1]
    args = [a for a in args if a != tier]
patch, props = args[0], args[1:]
V = os.path.dirname(os.path.dirname(os.path.abspath(__file__)))
tmp = tempfile.mkdtemp(prefix="al-mut-")
try:
    dst = os.path.join(tmp, "repo")
    os.makedirs(dst)
    subprocess.check_call("git -C /repo archive HEAD src tools | tar -x -C %s" % dst, shell=True)
    # working-tree state of /repo (uncommitted edits) is what checks normally see
    subprocess.check_call("cp -r /repo/src/. %s/src/ && cp -r /repo/tools/. %s/tools/" % (dst, dst), shell=True)
    if patch != "-":
        r = subprocess.run(["patch", "-p1", "-d", dst, "-i", os.path.abspath(patch)], capture_output=True, text=True)
        if r.returncode:
            print("PATCH FAILED", r.stdout, r.stderr)
            sys.exit(2)
    env = dict(os.environ, VERIF_REPO=dst, VERIF_EVIDENCE_DIR=os.path.join(tmp, "ev"))
    for p in props:
        r = subprocess.run([os.path.join(V, "check"), p, tier], capture_output=True, text=True, env=env, cwd=V)
        viol = [l for l in r.stdout.splitlines() if l.startswith("VIOLATION")]
        print("%s exit=%d violations=%d %s" % (p, r.returncode, len(viol), viol[0][:200] if viol else r.stdout.strip().splitlines()[-1][:160]))
finally:
    shutil.rmtree(tmp, ignore_errors=True)
