#!/usr/bin/env python3
"""Regenerates MANIFEST.json from the table below (kept in one place so it stays valid)."""
import json, os
V = os.path.dirname(os.path.dirname(os.path.abspath(__file__)))
props = [json.loads(l) for l in open(os.path.join(V, "properties.jsonl"))]
CLAIMS = {}
exec(open(os.path.join(V, "tools", "claims.py")).read(), CLAIMS)
claims = CLAIMS["CLAIMS"]
checks, na = [], []
for p in props:
    pid = p["id"]
    if pid in claims:
        c = claims[pid]
        checks.append({
            "property_id": pid,
            "quick_cmd": "./check %s quick" % pid,
            "thorough_cmd": "./check %s thorough" % pid,
            "evidence_file": "/verif/evidence/%s.json" % pid,
            "replay_cmd_template": "./check replay {path}",
            "engine": c.get("engine", "driver"),
            "level_claimed": {"category": c.get("category", "exploration"), "text": c["text"], "design_ref": "DESIGN.md section 3, " + pid},
            "level_note": c["note"],
            "technique": c["technique"],
        })
    else:
        na.append({"property_id": pid, "reason": CLAIMS["NOT_YET"].get(pid, "check not built yet in this commit (work in progress; the runtime-monitoring design for it is in DESIGN.md section 3)")})
m = {
    "version": 1,
    "setup_cmd": "./setup.sh",
    "hooks": {
        "guard": "ASSEMBLYLINE_VERIF",
        "enable": "checks compile /repo/src/*.c themselves with -DASSEMBLYLINE_VERIF plus sanitizer flags (vlib/common.py build()); no source hook is currently needed: all observation is at the public API and, via ld --wrap, at the libc boundary",
        "baseline_off_cmd": "python3 /verif/tools/baseline_check.py",
        "source_commits": [],
        "add_only": True,
    },
    "engines": [
        {"name": "driver", "path": "harness/driver.c", "serves_properties": sorted(claims), "kind_free_text": "replayable API-script interpreter linked with the library built from /repo under ASan+UBSan (or plain with guard pages / ld --wrap failpoints); records judged offline by Python oracles in vlib/"},
        {"name": "libfuzzer-target", "path": "harness/fuzz_target.c", "serves_properties": ["C09"], "kind_free_text": "clang libFuzzer + ASan + UBSan target; the same file built standalone with MemorySanitizer replays corpora"},
        {"name": "threads", "path": "harness/threads.c", "serves_properties": ["C18"], "kind_free_text": "pthread workload built with gcc -fsanitize=thread (and ASan)"},
        {"name": "decode-oracle", "path": "harness/decode.c", "serves_properties": [p for p in ("C01", "C02", "C03", "C04", "C05", "C11", "C13") if p in claims], "kind_free_text": "LLVM-MC + libopcodes decoders, canonical tuples (vlib/canon.py), nasm referee (vlib/oracle.py)"},
    ],
    "checks": checks,
    "not_applicable": na,
    "notes": "Technique family: runtime monitoring and sanitizers. Known genuine defects: known_findings.json. See DESIGN.md.",
}
json.dump(m, open(os.path.join(V, "MANIFEST.json"), "w"), indent=1)
print("claimed:", [c["property_id"] for c in checks], "not claimed:", [n["property_id"] for n in na])
