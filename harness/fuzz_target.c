/*
 * fuzz_target.c - libFuzzer entry for C09: arbitrary text, any option / chunk /
 * mode / entry point, must return EXIT_SUCCESS or EXIT_FAILURE without any
 * sanitizer report, crash or hang.
 *
 * input layout: 8 control bytes, then the text (made NUL-terminated here).
 *   b0 mov option (raw value, may be out of range)   b1 swap   b2 nobase
 *   b3 entry point: 0 str, 1 str+fitting, 2 counting, 3 file, 4 file counting,
 *                   5 two calls on the same instance (text split at the middle)
 *   b4 chunk size (0..255; counting uses it directly, incl. 0 and 1)
 *   b5 buffer: even = caller buffer (length from b6), odd = library buffer; bits 1+2 both set: debug printing on
 *   b6 caller buffer length selector     b7 start offset selector
 * Also usable without libFuzzer: -DFUZZ_STANDALONE gives a main() that replays files.
 */
#define _GNU_SOURCE 1
#include <assemblyline.h>
#include <fcntl.h>
#include <stdint.h>
#include <stdio.h>
#include <stdlib.h>
#include <string.h>
#include <sys/mman.h>
#include <unistd.h>

static const int LENS[8] = {0, 19, 20, 21, 64, 400, 4096, 65536};

static void check_rc(int rc) {
  if (rc != EXIT_SUCCESS && rc != EXIT_FAILURE) {
    fprintf(stderr, "FUZZ-ORACLE: return value %d is neither EXIT_SUCCESS nor EXIT_FAILURE\n", rc);
    abort();
  }
}

int LLVMFuzzerTestOneInput(const uint8_t *data, size_t size) {
  if (size < 8)
    return 0;
  const uint8_t *c = data;
  size_t tl = size - 8;
  char *text = malloc(tl + 1);
  memcpy(text, data + 8, tl);
  text[tl] = 0; /* embedded NULs simply end the string earlier */
  int mode = c[3] % 6;
  int chunk = c[4];
  uint8_t *buf = NULL;
  int blen = 0;
  assemblyline_t al;
  if (c[5] & 1) {
    al = asm_create_instance(NULL, 0);
  } else {
    blen = LENS[c[6] & 7];
    buf = malloc(blen ? (size_t)blen : 1);
    al = asm_create_instance(buf, blen);
  }
  if (!al) {
    free(buf);
    free(text);
    return 0;
  }
  asm_mov_imm(al, (enum asm_opt)c[0]);
  asm_sib_index_base_swap(al, (enum asm_opt)c[1]);
  asm_sib_no_base(al, (enum asm_opt)c[2]);
  if (c[7] & 0x80)
    asm_set_all(al, (enum asm_opt)(c[7] & 3));
  if ((c[5] & 6) == 6)
    asm_set_debug(al, true); /* the printers run as well (stdout is closed or /dev/null under the fuzzer) */
  if (buf) {
    int start = (c[7] & 0x7f) * blen / 127; /* 0..blen */
    if (start > blen)
      start = blen;
    asm_set_offset(al, start);
  }
  int count = 0;
  switch (mode) {
  case 0:
    check_rc(asm_assemble_str(al, text));
    break;
  case 1:
    asm_set_chunk_size(al, (size_t)chunk);
    check_rc(asm_assemble_str(al, text));
    break;
  case 2:
    check_rc(asm_assemble_string_counting_chunks(al, text, chunk, &count));
    break;
  case 3:
  case 4: {
    int fd = memfd_create("fuzz", 0);
    if (fd >= 0) {
      size_t n = strlen(text);
      if (write(fd, text, n) == (ssize_t)n) {
        char path[64];
        snprintf(path, sizeof path, "/proc/self/fd/%d", fd);
        if (mode == 3)
          check_rc(asm_assemble_file(al, path));
        else
          check_rc(asm_assemble_file_counting_chunks(al, path, chunk, &count));
      }
      close(fd);
    }
    break;
  }
  case 5: {
    size_t n = strlen(text), half = n / 2;
    while (half < n && text[half] != '\n')
      half++;
    char saved = text[half];
    text[half] = 0;
    check_rc(asm_assemble_str(al, text));
    text[half] = saved;
    if (half < n) {
      if (asm_get_offset(al) < 0)
        asm_set_offset(al, 0);
      check_rc(asm_assemble_str(al, text + half + 1));
    }
    break;
  }
  }
  (void)asm_get_offset(al);
  (void)asm_get_code(al);
  asm_destroy_instance(al);
  free(buf);
  free(text);
  return 0;
}

#ifdef FUZZ_STANDALONE
int main(int argc, char **argv) {
  /* the library prints a diagnostic for every rejected line: silence it, sanitizer reports go to log_path */
  if (getenv("FUZZ_QUIET")) {
    int fd = open("/dev/null", O_WRONLY);
    dup2(fd, 1);
    dup2(fd, 2);
  }
  for (int i = 1; i < argc; i++) {
    FILE *f = fopen(argv[i], "rb");
    if (!f)
      continue;
    static uint8_t b[1 << 21];
    size_t n = fread(b, 1, sizeof b, f);
    fclose(f);
    alarm(10); /* a hanging input kills the replay with SIGALRM instead of blocking it */
    LLVMFuzzerTestOneInput(b, n);
    alarm(0);
  }
  return 0;
}
#endif
