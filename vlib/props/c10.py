"""C10 - malformed or unencodable lines are rejected and emit nothing."""
import itertools
from .. import common, isa, enc, oracle
from ..canon import R64, R32, R16, R8, R8H

KINDS = "rvymi"
R_INST = ["al", "bx", "ecx", "rdx"]
M_INST = ["[rbx]", "byte [rbx]", "word [rbx]", "dword [rbx]", "qword [rbx]"]
TEMPLATES = ["mov rax, rbx", "add rax, 0x10", "lea rcx, [rax+rbx*2+8]", "vpaddb ymm1, ymm2, ymm3", "jmp 4", "push r9", "mov byte [rax], 1", "nop"]


def mnemonics():
    ms = set(isa.ALU + isa.CMOV + isa.SETCC + isa.JCC + isa.UNARY + isa.SHIFT_IMM + isa.NOARG + isa.BMI_RMV + isa.SSE_VV_ONLY + isa.SSE_MMX + isa.SSE_ONLY_RM +
             isa.AVX_256_ONLY + isa.AVX_BOTH + isa.AVX_IMM + isa.AVX_MOV)
    ms |= {"mov", "test", "xchg", "imul", "adcx", "adox", "movzx", "shld", "shrd", "push", "pop", "mulx", "rorx", "lea", "jmp", "call", "jrcxz", "xbegin", "xabort",
           "movd", "movq", "movntdqa", "movntq", "psrldq", "prefetcht0", "prefetcht1", "prefetcht2", "prefetchnta", "clflush", "nop"}
    return sorted(ms)


def instantiations(tup, rich):
    """lines' operand strings for a kind tuple. rich: the set used to decide with nasm whether ANY instantiation exists."""
    if len(tup) == 4 or not rich:
        outs = []
        for w, r in ((32, "ecx"), (64, "rdx")):
            for mk in (("[rbx]",) if not rich else ("[rbx]", "qword [rbx]", "dword [rbx]")):
                outs.append([{"r": r, "v": "xmm1", "y": "ymm2", "m": mk, "i": "5"}[k] for k in tup])
        if rich and "r" in tup:
            outs.append([{"r": "al", "v": "xmm1", "y": "ymm2", "m": "byte [rbx]", "i": "5"}[k] for k in tup])
            outs.append([{"r": "bx", "v": "xmm1", "y": "ymm2", "m": "word [rbx]", "i": "5"}[k] for k in tup])
        uniq = []
        for o in outs:
            if o not in uniq:
                uniq.append(o)
        return uniq
    opts = []
    nr = tup.count("r")
    for pos, k in enumerate(tup):
        if k == "r":
            o = list(R_INST)
            if pos == len(tup) - 1 and len(tup) >= 2:
                o.append("cl")  # shift/rotate counts: (r/m, cl) is a defined kind tuple
            opts.append(o)
        elif k == "m":
            opts.append(M_INST)
        elif k == "i":
            opts.append(["5", "1"] if pos == len(tup) - 1 else ["5"])
        else:
            opts.append(["xmm1"] if k == "v" else ["ymm2"])
    outs = [list(c) for c in itertools.product(*opts)]
    if len(outs) > 60:
        # keep same-width register combinations + every (first, last) pairing
        keep = []
        for c in outs:
            rs = [x for x, k in zip(c, tup) if k == "r"]
            ws = set("8" if x in ("al", "cl") else x for x in rs)
            if len(ws) <= 2:
                keep.append(c)
        outs = keep[:200]
    return outs


def undefined_tuples(ms, v):
    """(mnemonic, tuple) pairs for which nasm rejects every instantiation of the rich set"""
    alltups = [()]
    for n in (1, 2, 3, 4):
        alltups += list(itertools.product(KINDS, repeat=n))
    lines = {}
    for m in ms:
        for t in alltups:
            lines[(m, t)] = [("%s %s" % (m, ", ".join(o))).strip() for o in instantiations(t, True)]
    flat = sorted(set(l for ls in lines.values() for l in ls))
    res = oracle.nasm_many(flat)
    undef = []
    for key, ls in lines.items():
        if all(res[l][0] is None for l in ls):
            undef.append(key)
    return undef, len(alltups), len(flat)


def reg_typos():
    """one-character edits of every register name that are still lexically names and not registers/keywords"""
    regs = set(R64 + R32 + R16 + R8 + R8H + ["xmm%d" % i for i in range(16)] + ["ymm%d" % i for i in range(16)] + ["mm%d" % i for i in range(8)])
    keywords = {"byte", "word", "dword", "qword", "short", "long", "far", "ptr"}
    alpha = "abcdefghijklmnopqrstuvwxyz0123456789"
    out = set()
    for r in sorted(regs):
        cands = set()
        for i in range(len(r)):
            cands.add(r[:i] + r[i + 1:])
            for ch in alpha:
                cands.add(r[:i] + ch + r[i + 1:])
                cands.add(r[:i] + ch + r[i:])
            if i + 1 < len(r):
                cands.add(r[:i] + r[i + 1] + r[i] + r[i + 2:])
        for ch in alpha:
            cands.add(r + ch)
        for c in cands:
            if c and c[0].isalpha() and c.isalnum() and c not in regs and c not in keywords and not c.startswith(("0x",)):
                out.add((r, c))
    return sorted(out)


def run(tier):
    v = common.Verdict("C10", tier)
    full = tier == "thorough"
    rnd = common.rng("c10")
    binary = common.build("asan")
    ms = mnemonics()
    bad = []  # (family, text, meta)
    undef, ntup, nnasm = undefined_tuples(ms, v)
    for (m, t) in undef:
        inst = instantiations(t, False) if not full else instantiations(t, True)
        if not full:
            inst = inst[:1] + ([rnd.choice(instantiations(t, True))] if rnd.random() < 0.1 else [])
        for o in inst:
            bad.append(("kinds", ("%s %s" % (m, ", ".join(o))).strip(), {"mn": m, "tuple": "".join(t) or "n"}))
    typos = reg_typos()
    regclass = lambda r: "v" if r[0] in "xy" else ("mm" if r.startswith("mm") else "r")
    for (r, c) in typos:
        k = regclass(r)
        if k == "r":
            tmpls = ["mov %s, rbx", "add rbx, %s", "lea rax, [%s]", "lea rax, [rbx+%s*2]", "push %s", "bextr rax, rbx, %s", "imul rax, %s, 5", "shld rax, %s, cl", "mulx rax, %s, rcx"]
        elif k == "v":
            tmpls = ["paddb %s, xmm1", "vpaddb xmm1, xmm2, %s"] if r[0] == "x" else ["vpaddb %s, ymm1, ymm2", "vpaddb ymm1, ymm2, %s"]
        else:
            tmpls = ["paddb %s, mm1", "paddb mm1, %s"]
        if not full:
            tmpls = [tmpls[rnd.randrange(len(tmpls))]] if rnd.random() < 0.9 else tmpls
        for t in tmpls:
            bad.append(("regtypo", t % c, {"reg": r, "typo": c, "tmpl": t, "first": c[0]}))
    # invalid memory expressions, under every class of instruction that takes a memory operand (each encoder path has its
    # own copy of the validity checks - seeded change C10-sp-index-accepted-on-O-path was missed while only lea/mov were used)
    MEMT = ["lea rax, %s", "mov rdx, %s", "mov %s, rdx", "add qword %s, 5", "jmp %s", "call %s", "push qword %s", "inc dword %s", "vpaddb ymm1, ymm2, %s",
            "paddb xmm1, %s", "movq %s, xmm1", "bextr rax, %s, rbx", "mulx rax, rbx, %s", "sete %s", "shl qword %s, cl", "imul rax, %s, 5", "prefetcht0 %s", "movntq %s, mm1",
            "vmovupd %s, ymm3", "shld %s, rax, 5"]
    for s in (0, 3, 5, 6, 7, 9, 10, 16, 42):
        for idx in ("rcx", "r9", "ecx"):
            base = "rbx" if idx[0] == "r" else "ebx"
            for e in ("[%s+%s*%d]" % (base, idx, s), "[%s+%d*%s]" % (base, s, idx), "[%d*%s]" % (s, idx), "[%s+%s*%d+8]" % (base, idx, s), "[%s+%d*%s-0x100]" % (base, s, idx)):
                for t in MEMT:
                    bad.append(("scale", t % e, {"scale": s, "index": idx, "tmpl": t}))
    # scale SPELLINGS: zero-padded and hexadecimal factors; nasm referees (it reads 010 as ten and rejects it, 0x4 or 02 are fine)
    for sc in ("010", "0010", "00010", "011", "012", "016", "03", "05", "0x3", "0x10", "0x0a", "1e1", "10b", "8d", "2h", "+2", "-2", "2.0"):
        for e in ("[rbx+rcx*%s]" % sc, "[rbx+%s*rcx]" % sc, "[%s*rcx]" % sc, "[rbx+rcx*%s-8]" % sc, "[ebx+ecx*%s]" % sc):
            for t in (MEMT if full else MEMT[:6] + rnd.sample(MEMT, 3)):
                bad.append(("scale", t % e, {"scale": sc, "index": "rcx", "tmpl": t}))
    for sp, fam in (("rsp", R64), ("esp", R32)):
        exprs = []
        for s in (1, 2, 4, 8):
            for b in fam:
                exprs.append(("[%s+%s*%d]" % (b, sp, s), s, b))
                exprs.append(("[%s+%d*%s]" % (b, s, sp), s, b))
            exprs.append(("[%d*%s]" % (s, sp), s, None))
            exprs.append(("[%s+%s*%d+0x10]" % (fam[0], sp, s), s, fam[0]))
        exprs.append(("[%s+%s]" % (sp, sp), None, sp))
        exprs.append(("[%s+%s+8]" % (sp, sp), None, sp))
        for e, s, b in exprs:
            for t in (MEMT if (b in (fam[0], fam[3], fam[9], sp, None)) else MEMT[:1] + [rnd.choice(MEMT)]):
                bad.append(("spindex", t % e, {"scale": s, "base": b, "sp": sp, "tmpl": t}))
    # memory expressions as SUMS OF TERMS in any number and order (plain register, register*scale, scale*register, displacement; 2-4
    # terms; registers drawn with repetition from a small pool, so that the same register occurs in several terms) that contain an
    # invalid scale or a scaled stack pointer somewhere - also behind two other register terms, where a validity check that looks at
    # "the" index only does not see it. nasm referees (it folds [rax+rbx+rbx] or [rbx+rbx*2] into legal addresses: those are dropped)
    nterm = 2500 if not full else 60000
    seen_e = set()
    for k in range(nterm * 3):
        if len(seen_e) >= nterm:
            break
        pool = rnd.choice([["rax", "rbx", "rcx"], ["rbx", "rsp", "r9"], ["eax", "ebx", "esp"], ["r8", "r9", "r12"], ["rax", "rsp"], ["r13d", "r9d", "ecx"]])
        nt = rnd.choice([2, 3, 3, 3, 4])
        terms, has_bad = [], False
        for i in range(nt):
            kind = rnd.choice("RRSSTD")
            r = rnd.choice(pool)
            if kind == "R":
                terms.append(r)
            elif kind == "D":
                terms.append(rnd.choice(["8", "0x10", "0x100"]))
            else:
                sc = rnd.choice([1, 2, 4, 8, 3, 5, 6, 7, 9, 10, 16])
                if sc not in (1, 2, 4, 8) or (r in ("rsp", "esp") and sc != 1):
                    has_bad = True
                terms.append("%s*%d" % (r, sc) if kind == "S" else "%d*%s" % (sc, r))
        if not has_bad:
            continue
        e = "[" + "+".join(terms) + "]"
        if e in seen_e:
            continue
        seen_e.add(e)
        for t in (MEMT[:2] + rnd.sample(MEMT, 2) if full else [rnd.choice(MEMT[:3]), rnd.choice(MEMT)]):
            bad.append(("memterms", t % e, {"expr": e, "tmpl": t, "nterms": nt}))
    # registers that cannot address memory (8/16-bit, MMX, XMM, YMM) as base or index, and base/index of different widths
    for breg in ("al", "ah", "bl", "sil", "r8b", "ax", "bx", "si", "bp", "r8w", "mm0", "xmm0", "xmm9", "ymm1", "ymm15"):
        for e in ("[%s]" % breg, "[%s+8]" % breg, "[rax+%s]" % breg, "[rax+%s*2]" % breg, "[%s+rcx]" % breg, "[4*%s]" % breg, "[%s+rcx*8-0x100]" % breg):
            for t in (MEMT if full else rnd.sample(MEMT, 5) + MEMT[:2]):
                bad.append(("addrreg", t % e, {"reg": breg, "tmpl": t}))
    for e in ("[rax+ecx]", "[eax+rcx]", "[eax+rcx*2]", "[r8+r9d*4]", "[r8d+r9]", "[rbx+esi+8]", "[ebx+2*r15]", "[rsp+eax]", "[esp+rax*1]"):
        for t in MEMT:
            bad.append(("addrreg", t % e, {"reg": "mixed", "tmpl": t}))
    for t in ["lea rax, [rbx", "lea rax, [rbx+8", "mov rax, [[rbx]]", "mov rax, [rbx]]", "mov [rax, rbx", "mov rax, 5, rbx", "add rax, 1, 2", "mov rax, , rbx", "mov , rax",
              "mov rax,", ", rax", "mov rax,, rbx", "push", "add", "mov rax rbx", "bogus", "bogus rax", "movv rax, rbx", "mo rax, rbx", "rax mov, rbx", "vpaddb ymm1, ymm2, ymm3, ymm4, ymm5",
              "lea rax, []", "lea rax, [+]", "lea rax, [*2]", "lea rax, [rbx*]", "lea rax, [rbx+*2]", "lea rax, [rbx**2]", "mov rax, [rbx+rcx+rdx]", "mov rax, [rbx*2*2]",
              "add rax, 5 rbx", "ret 5, 6", "nop rax, rbx, rcx"]:
        bad.append(("syntax", t, {}))
    # a comma announces another operand: valid lines of every operand count with a TRAILING comma (an empty last operand), also in
    # front of a comment or blanks, and with a doubled comma between operands
    for t in TEMPLATES + ["push rax", "mov rax, 5", "ret", "shld rax, rbx, 5", "vpaddb ymm1, ymm2, ymm3", "vperm2i128 ymm1, ymm2, ymm3, 1", "inc dword [rax]", "add qword [rbx+rcx*2], 7", "jmp 0x10", "lea rax, [rbx]"]:
        for tail in (",", " ,", ", ", ",\t", ", ; c", ",;c", ",,", ", ,"):
            bad.append(("syntax", t + tail, {"tmpl": t, "tail": tail}))
        if ", " in t:
            bad.append(("syntax", t.replace(", ", ",, ", 1), {"tmpl": t, "tail": "doubled"}))
            bad.append(("syntax", t.replace(", ", ", , ", 1), {"tmpl": t, "tail": "doubled"}))
    for t in TEMPLATES:
        for pos in range(len(t) + 1):
            for b in (list(range(0x7f, 0x100)) if full or pos % 3 == 0 else [0x7f, 0x80, 0xc3, 0xff]):
                bad.append(("hibyte", t[:pos] + chr(b) + t[pos:], {"pos": pos, "byte": b, "tmpl": t}))
    # multi-byte sequences a text editor may put into a file: byte order marks and UTF-8 characters, at the start of the line (where
    # a lenient reader might "skip a BOM"), after leading blanks, between tokens and at the end; also in front of an EMPTY line
    SEQS = ["\xef\xbb\xbf", "\xff\xfe", "\xfe\xff", "\xc3\xa9", "\xe2\x80\x94", "\xe2\x80\x8b", "\xc2\xa0", "\xf0\x9f\x98\x80", "\xef\xbb", "\xbb\xbf", "\xef\xbb\xbf\xef\xbb\xbf"]
    for t in TEMPLATES + ["", "ret", "vpaddb xmm1, xmm2, xmm3"]:
        sp = t.find(" ")
        for sq in SEQS:
            for pos in sorted(set([0, len(t)] + ([sp, sp + 1] if sp > 0 else []))):
                bad.append(("hiseq", t[:pos] + sq + t[pos:], {"pos": pos, "seq": sq.encode("latin-1").hex(), "tmpl": t}))
            bad.append(("hiseq", " \t" + sq + t, {"pos": -1, "seq": sq.encode("latin-1").hex(), "tmpl": t}))
    # control bytes (outside printable ASCII as well; tab, CR and LF are blanks / line ends) at every position
    for t in TEMPLATES:
        for pos in range(len(t) + 1):
            for b in ([x for x in range(1, 0x20) if x not in (9, 10, 13)] if full or pos % 2 == 0 else [0x01, 0x0b, 0x1f]):
                bad.append(("ctlbyte", t[:pos] + chr(b) + t[pos:], {"pos": pos, "byte": b, "tmpl": t}))
    # a printable character that belongs to no token, inside a mnemonic or register name: the name is then unknown
    INNER = "!\"#$&'()./<=>?@\\^_`{|}~"
    for t in TEMPLATES + ["setnbe r9b", "cmovne r10d, r11d", "movq xmm9, r12"]:
        for pos in range(1, len(t)):
            if t[pos - 1].isalpha() and t[pos].isalnum() and "0x" not in t[max(0, pos - 2):pos + 1]:
                for ch in (INNER if full or pos % 2 else "!~_."):
                    bad.append(("innerjunk", t[:pos] + ch + t[pos:], {"pos": pos, "char": ch, "tmpl": t}))
    # families (iii) and (iv): nasm is the referee for "invalid" as well - a line nasm assembles is not demanded to be rejected
    ref = oracle.nasm_many([t for fam, t, m in bad if fam in ("scale", "spindex", "syntax", "addrreg", "junkvalid", "memterms")])
    nref = len(bad)
    bad = [(fam, t, m) for fam, t, m in bad if fam not in ("scale", "spindex", "syntax", "addrreg", "junkvalid", "memterms") or ref[t][0] is None]
    dropped_by_referee = nref - len(bad)
    # (vi) junk in front of a malformed line does not rescue it: characters that are neither letters nor the comment (';') / macro ('%') /
    # label (':') markers - a line with a ':' is a label line and is skipped as a whole, as documented
    JUNK = [chr(c) for c in range(0x20, 0x7f) if not chr(c).isalpha() and chr(c) not in ";%:"] + ["\t"]
    pool = [b for b in bad if b[0] != "hibyte"]
    for ch in JUNK:
        for fam, t, m in rnd.sample(pool, 12 if not full else 150) + [("syntax", "bogus rax, 1", {}), ("syntax", "lea rax, rbx", {}), ("syntax", "mov rax, [rbx+rcx*3]", {})]:
            pre = ch if rnd.random() < 0.6 else ch + "".join(rnd.choice(JUNK) for _ in range(rnd.randrange(1, 3)))
            bad.append(("junkprefix", pre + t, dict(m, junk=pre, inner=fam)))
        # ... nor does it belong in front of a valid line: the first token is then no mnemonic (nasm referees)
        for t in TEMPLATES[:4] + [rnd.choice(TEMPLATES)]:
            pre = ch if rnd.random() < 0.7 else ch + rnd.choice(JUNK)
            if pre.strip(" \t"):
                bad.append(("junkvalid", pre + t, {"junk": pre, "tmpl": t}))
    # ---- run: each bad line alone, and first / middle / last in a 3-line program of valid neighbours
    # the valid neighbours: nops for most, and for a third of the placements lines of every family (whatever a successful lookup /
    # parse leaves behind then meets the bad line, and the code of the valid lines in front must still be all that is emitted)
    from .. import corpus
    NBL = ["setnle r9b", "cmovnae r10w, r11w", "vpaddb ymm10, ymm11, [r12+r13*8+0x12345678]", "mov rax, 0x1122334455667788", "add qword [rbx+rcx*2], 7", "shld rax, rbx, 5", "jmp short 4",
           "movzx eax, byte [rsi]", "push r15", "xchg rax, r8", "bextr r10, r11, r12", "movq xmm9, r12", "imul rax, rbx, 100", "lea r15, [rax+rsp]", "mov ah, bl", "nop7", "cqo", "vzeroupper", "paddb mm1, mm2", "xbegin 0x100"]
    nb_alone = {mk: corpus.accepted_alone(binary, NBL, mk) for mk in enc.COMBOS}
    items, meta = [], []
    for fam, text, m in bad:
        placements = ["alone", rnd.choice(["first", "middle", "last"])] if not full else ["alone", "first", "middle", "last"]
        for pl in placements:
            mask = "211" if rnd.random() < 0.6 else rnd.choice(enc.COMBOS)
            if pl != "alone" and len(items) % 3 == 0:
                x1, x2 = rnd.choice(NBL), rnd.choice(NBL)
                if x1 in nb_alone[mask] and x2 in nb_alone[mask]:
                    prog = {"first": text + "\n" + x1 + "\n" + x2, "middle": x1 + "\n" + text + "\n" + x2, "last": x1 + "\n" + x2 + "\n" + text}[pl]
                    valid_before = {"first": 0, "middle": len(nb_alone[mask][x1]) // 2, "last": (len(nb_alone[mask][x1]) + len(nb_alone[mask][x2])) // 2}[pl]
                    items.append((mask, prog, 0))
                    meta.append((fam, text, m, pl + "+", mask, valid_before))
                    continue
            prog = {"alone": text, "first": text + "\nnop\nnop", "middle": "nop\n" + text + "\nnop", "last": "nop\nnop\n" + text}[pl]
            valid_before = {"alone": 0, "first": 0, "middle": 1, "last": 2}[pl]
            items.append((mask, prog, 0))
            meta.append((fam, text, m, pl, mask, valid_before))
    res = common.run_lines(binary, items, tag="c10")
    stats = {"mnemonics": len(ms), "kind_tuples_per_mnemonic": ntup, "nasm_lines_refereed": nnasm, "undefined_(mnemonic,tuple)_pairs": len(undef), "bad_lines": len(bad), "lines_nasm_accepts_dropped": dropped_by_referee, "by_family": {}}
    for (fam, text, m, pl, mask, vb), r in zip(meta, res):
        v.count()
        stats["by_family"][fam] = stats["by_family"].get(fam, 0) + 1
        case = dict(m)
        case.update({"key": "%s(%s)[%s]: %r" % (fam, pl, mask, text), "text": text, "fam": "bad_" + fam, "placement": pl, "combo": mask})
        if "crash" in r:
            v.violation(case, r["crash"]["sig"], r["crash"]["stderr"][-1000:])
            continue
        if r["rc"] == 0:
            v.violation(case, "accepted-should-reject", "bytes %s" % r["bytes"])
        elif r["hi"] >= vb:
            v.violation(case, "rejected-but-emitted-code", "dirty [%d,%d] valid prefix %d bytes" % (r["lo"], r["hi"], vb))
        else:
            v.distinct((fam, text, pl))
            if v.cov["evaluations"] % 9000 == 1:
                v.sample({"family": fam, "line": repr(text), "placement": pl, "opts": mask, "rc": r["rc"]})
    # a rejection must not depend on the same text having been seen just before
    rej = [({"fam": "bad_" + fam, "text": text}, mask, text) for (fam, text, m_, pl, mask, vb), r in zip(meta, res) if pl == "alone" and "crash" not in r and r["rc"] != 0 and fam != "hibyte"]
    stats["rejected_resubmitted_ok"] = enc.retry_rejected(v, binary, rej if full else rnd.sample(rej, min(len(rej), 4000)))
    # ... nor on HOW the line reaches the assembler: a sample of the rejected lines again under chunk fitting (at a position where a
    # valid instruction would be padded), through the counting entry point (chunk size 8 and 0), on a library-managed buffer at a far
    # offset, and written with CRLF, leading tab and a trailing comment - "at whatever position in the program and in every mode"
    oth = rej if full else rnd.sample(rej, min(len(rej), 3000))
    ocases, ometa = [], []
    for (cinfo, mask, text) in oth:
        hx_ = common.hx(text)
        opts = ["opt 0 mov %s" % mask[0], "opt 0 swap %s" % mask[1], "opt 0 nobase %s" % mask[2]]
        variants = {
            "fit": ["new 0 ext 256 H 0xcc"] + opts + ["chunk 0 16", "setoff 0 15", "asm 0 %s" % hx_, "dump 0 15 80"],
            "cnt8": ["new 0 ext 256 H 0xcc"] + opts + ["setoff 0 15", "cnt 0 8 %s" % hx_, "dump 0 15 80"],
            "cnt0": ["new 0 ext 256 H 0xcc"] + opts + ["setoff 0 15", "cnt 0 0 %s" % hx_, "dump 0 15 80"],
            "far": ["new 0 int"] + opts + ["asm 0 %s" % common.hx("nop"), "setoff 0 70001", "asm 0 %s" % hx_, "dump 0 0 1"],
            "dress": ["new 0 ext 256 H 0xcc"] + opts + ["setoff 0 15", "asm 0 %s" % common.hx("\t" + text + " ; c\r\n"), "dump 0 15 80"],
        }
        for k in rnd.sample(sorted(variants), 2):
            if k == "dress" and (";" in text or cinfo["fam"] in ("bad_hiseq", "bad_ctlbyte", "bad_junkprefix", "bad_junkvalid")):
                continue  # (a ';' inside the bad line, or junk in front, would change what the added decoration means)
            ocases.append(variants[k])
            ometa.append((cinfo, mask, text, k))
    ores = common.run_cases(binary, ocases, tag="c10o")
    stats["rejected_other_entry_points_ok"] = 0
    for (cinfo, mask, text, k), cmds, r in zip(ometa, ocases, ores):
        v.count()
        case = dict(cinfo)
        case.update({"key": "%s via %s [%s]: %r" % (cinfo["fam"], k, mask, text), "combo": mask, "script": cmds})
        if r["crash"]:
            v.violation(case, r["crash"]["sig"], r["crash"]["stderr"][-800:])
            continue
        a = r["records"][-2].split()
        d = r["records"][-1].split()[1]
        if a[1] == "0":
            v.violation(case, "accepted-should-reject", "via %s: %s" % (k, " ".join(a)))
        elif k != "far" and d.replace("cc", "") != "":
            v.violation(case, "rejected-but-emitted-code", "via %s: %s" % (k, d[:60]))
        else:
            stats["rejected_other_entry_points_ok"] += 1
    v.cov["rule"] = ("(i) every spec mnemonic x every operand-kind tuple over {scalar reg, xmm, ymm, memory, immediate} with 0-4 operands (781 tuples); a tuple is 'not defined in x86-64' iff nasm rejects ALL its "
                     "instantiations (live referee, %d lines this run), then instantiated for the library; (ii) every one-character edit of every register name that is lexically a name and not a register/keyword, in "
                     "register, memory-base and index positions; (iii) scales 0,3,5,6,7,9,10,16,42 in both factor orders; the stack pointer as scaled index, as index of itself, with every base; sums of 2-4 register / scaled-register / displacement terms in any order with repeated registers that contain an invalid scale or a scaled stack pointer (nasm-refereed); 8/16-bit, MMX, XMM and YMM registers as base or index and base/index of different widths; (iv) bracket / comma (leading, doubled, TRAILING after lines of every operand count) / "
                     "operand-after-immediate / empty-operand / unknown-mnemonic syntax errors; (v) bytes 0x7f-0xff, byte order marks and UTF-8 sequences at line start / between tokens / line end, and control bytes 0x01-0x1f (except tab, CR, LF) at positions of 8 template lines, printable non-token characters inside mnemonics and register names; (vi) lines of (i)-(iv) behind 1-3 junk characters (every printable non-letter except ';', '%%' and ':'). Each alone and first/middle/last in a program with valid neighbours (nops, or lines of 20 different families), "
                     "option combos sampled; a sample again under chunk fitting, through the counting entry point (chunk size 8 and 0), on a library buffer at a far offset, and with leading tab / trailing comment / CRLF. Oracle: rc == EXIT_FAILURE and no byte at or after the rejected line's start differs from the prefill" % nnasm)
    v.cov["exhaustive"] = False
    v.cov.update(stats)
    return v.finish(None, len(undef) > 10000 and stats["bad_lines"] > 20000, "universe too small: %r" % {k: stats[k] for k in stats if k != "by_family"})
