"""Canonical instruction tuples from the text of two independent decoders
(LLVM-MC, Intel syntax / GNU libopcodes -Mintel) and from structured expectations.

tuple := (op, operand, ...)
operand := ('r', name) | ('m', width|None, addrsize, ((reg,coeff),...), disp) |
           ('i', value) | ('rel', disp)
Immediates are compared modulo the operand width (see imm_width)."""
import re

CC = {
    "o": "o", "no": "no", "b": "b", "c": "b", "nae": "b", "ae": "ae", "nb": "ae", "nc": "ae",
    "e": "e", "z": "e", "ne": "ne", "nz": "ne", "be": "be", "na": "be", "a": "a", "nbe": "a",
    "s": "s", "ns": "ns", "p": "p", "pe": "p", "np": "np", "po": "np", "l": "l", "nge": "l",
    "ge": "ge", "nl": "ge", "le": "le", "ng": "le", "g": "g", "nle": "g",
}
SHIFTS = {"shl", "shr", "sar", "rol", "ror", "rcl", "rcr"}
IMM8_OPS = SHIFTS | {"rorx", "shld", "shrd", "psrldq", "vperm2i128", "vperm2f128", "xabort",
                     "pslldq", "psrlq", "psllq"}
COMMUTE = {"xchg", "test"}

R64 = "rax rcx rdx rbx rsp rbp rsi rdi r8 r9 r10 r11 r12 r13 r14 r15".split()
R32 = "eax ecx edx ebx esp ebp esi edi r8d r9d r10d r11d r12d r13d r14d r15d".split()
R16 = "ax cx dx bx sp bp si di r8w r9w r10w r11w r12w r13w r14w r15w".split()
R8 = "al cl dl bl spl bpl sil dil r8b r9b r10b r11b r12b r13b r14b r15b".split()
R8H = "ah ch dh bh".split()
REGW = {}
for _l, _w in ((R64, 64), (R32, 32), (R16, 16), (R8, 8), (R8H, 8)):
    for _r in _l:
        REGW[_r] = _w
for _i in range(16):
    REGW["xmm%d" % _i] = 128
    REGW["ymm%d" % _i] = 256
for _i in range(8):
    REGW["mm%d" % _i] = 64
REGW["rip"] = 64
REGW["eip"] = 32
ALIAS_REG = {"r%dl" % i: "r%db" % i for i in range(8, 16)}

PTRW = {"byte": 8, "word": 16, "dword": 32, "qword": 64, "xmmword": 128, "ymmword": 256,
        "fword": 48, "tbyte": 80, "mmword": 64, "oword": 128}


def canon_op(mn):
    mn = mn.lower()
    if mn == "sal":
        return "shl"
    if mn == "movabs":
        return "mov"
    if mn in ("ljmp", "jmpf"):
        return "jmpf"
    if mn in ("lcall", "callf"):
        return "callf"
    if mn in ("retq", "retn"):
        return "ret"
    for pre in ("cmov", "set", "j"):
        if mn.startswith(pre) and mn[len(pre):] in CC and mn not in ("jmp",):
            return pre + CC[mn[len(pre):]]
    return mn


def _int(s):
    s = s.strip().lower().replace(" ", "")
    neg = False
    if s.startswith("-"):
        neg = True
        s = s[1:]
    elif s.startswith("+"):
        s = s[1:]
    if s.endswith("h") and not s.startswith("0x"):
        v = int(s[:-1], 16)
    else:
        v = int(s, 0)
    return -v if neg else v


def signed(v, bits):
    v &= (1 << bits) - 1
    if v >> (bits - 1):
        v -= 1 << bits
    return v


class CanonError(Exception):
    pass


_TERM = re.compile(r"\s*([+-])\s*")


def parse_mem(inner, width, addr32_hint=False):
    """inner: text between brackets (or bare displacement for objdump ds:0x..)."""
    lin = {}
    disp = 0
    s = inner.strip().lower()
    if not s:
        raise CanonError("empty mem")
    # tokenise into signed terms
    parts = _TERM.split(s)
    terms = []
    sign = 1
    if parts and parts[0] == "":
        parts = parts[1:]
    else:
        parts = ["+"] + parts
    for i in range(0, len(parts) - 1, 2):
        terms.append((1 if parts[i] == "+" else -1, parts[i + 1].strip()))
    asz = None
    for sg, t in terms:
        if not t:
            raise CanonError("empty term in %r" % inner)
        if "*" in t:
            a, b = [x.strip() for x in t.split("*", 1)]
            if a in REGW or a in ("riz", "eiz"):
                reg, sc = a, _int(b)
            elif b in REGW or b in ("riz", "eiz"):
                reg, sc = b, _int(a)
            else:
                raise CanonError("bad scaled term %r" % t)
            if reg in ("riz", "eiz"):
                asz = asz or (64 if reg == "riz" else 32)
                continue
            lin[reg] = lin.get(reg, 0) + sg * sc
            asz = REGW[reg] if asz is None else asz
        elif t in REGW:
            lin[t] = lin.get(t, 0) + sg
            asz = REGW[t] if asz is None else asz
        elif t in ("riz", "eiz"):
            asz = asz or (64 if t == "riz" else 32)
        else:
            disp += sg * _int(t)
    if asz is None:
        asz = 32 if addr32_hint else 64
    if asz not in (32, 64):
        raise CanonError("address register size %s in %r" % (asz, inner))
    disp = signed(disp, asz)
    return ("m", width, asz, tuple(sorted((k, v) for k, v in lin.items() if v)), disp)


_PTR = re.compile(r"^(?:(byte|word|dword|qword|xmmword|ymmword|fword|tbyte|mmword|oword)\s+ptr\s+)?(?:([a-z]s):\s*)?(.*)$", re.I)


def parse_operand(t, addr32=False):
    t = t.strip()
    tl = t.lower()
    if tl in ALIAS_REG:
        tl = ALIAS_REG[tl]
    if tl in REGW:
        return ("r", tl)
    m = _PTR.match(tl)
    width = PTRW[m.group(1)] if m.group(1) else None
    seg = m.group(2)
    rest = m.group(3).strip()
    if rest.startswith("[") and rest.endswith("]"):
        return parse_mem(rest[1:-1], width, addr32)
    if seg is not None:  # objdump absolute: ds:0x4
        return parse_mem(rest, width, addr32)
    if width is not None:
        raise CanonError("ptr without memory: %r" % t)
    try:
        return ("i", _int(rest))
    except ValueError:
        raise CanonError("unparsed operand %r" % t)


def split_operands(s):
    out, depth, cur = [], 0, ""
    for ch in s:
        if ch == "[":
            depth += 1
        elif ch == "]":
            depth -= 1
        if ch == "," and depth == 0:
            out.append(cur)
            cur = ""
        else:
            cur += ch
    if cur.strip():
        out.append(cur)
    return out


BRANCH_REL = {"jmp", "call", "jrcxz", "jecxz", "xbegin", "loop", "loope", "loopne"}
PREFIX_WORDS = {"rex", "data16", "addr32", "notrack", "bnd", "ds", "cs", "es", "ss", "rep", "repz", "repnz", "lock"}


def canon_text(text, length, source):
    """text -> canonical tuple. source in {'llvm','bfd'}; length = bytes consumed
    (needed to turn objdump's branch targets into relative fields)."""
    s = text.strip().lower()
    if not s or "(bad)" in s or s.startswith("."):
        raise CanonError("undecodable: %r" % text)
    toks = s.split()
    flags = set()
    while toks and (toks[0] in PREFIX_WORDS or toks[0].startswith("rex.")):
        flags.add(toks[0])
        toks.pop(0)
    if not toks:
        raise CanonError("only prefixes: %r" % text)
    mn = toks[0]
    rest = " ".join(toks[1:])
    op = canon_op(mn)
    addr32 = "addr32" in flags
    if op == "nop" or (op == "xchg" and rest.replace(" ", "") == "ax,ax"):
        return ("nop",)
    opsrc = [parse_operand(o, addr32) for o in split_operands(rest)] if rest else []
    # far branches through memory. LLVM prints 'ljmp [m]' / 'jmp [m]' (no size) for FF /5, libopcodes
    # 'jmp DWORD|FWORD PTR [m]' (a near indirect branch is always 'qword ptr' in 64-bit mode).
    if op in ("jmp", "call") and len(opsrc) == 1 and opsrc[0][0] == "m" and (
            (source == "llvm" and opsrc[0][1] is None) or (source == "bfd" and opsrc[0][1] in (32, 48, 80))):
        op += "f"
    if op in ("jmpf", "callf"):
        opsrc = [("m", None) + o[2:] if o[0] == "m" else o for o in opsrc]
        return (op,) + tuple(opsrc)
    is_rel = (op in BRANCH_REL or (op.startswith("j") and op[1:] in CC)) and opsrc and opsrc[0][0] == "i"
    if is_rel:
        v = opsrc[0][1]
        if source == "bfd":
            v = v - length
        return (op, ("rel", signed(v, 64)))
    if op in SHIFTS and len(opsrc) == 1:
        opsrc.append(("i", 1))
    # immediates modulo operand width
    w = imm_width(op, opsrc)
    ops = []
    for o in opsrc:
        if o[0] == "i":
            ops.append(("i", o[1] & ((1 << w) - 1)))
        else:
            ops.append(o)
    if op in COMMUTE and len(ops) == 2:
        ops = sorted(ops, key=repr)
    return (op,) + tuple(ops)


def imm_width(op, ops):
    if op in IMM8_OPS:
        return 8
    if op == "push":
        return 64
    for o in ops:
        if o[0] == "r":
            return min(REGW[o[1]], 64)
        if o[0] == "m" and o[1]:
            return min(o[1], 64)
    return 64


def canon_expected(op, ops):
    """Normalise a generator-built expectation the same way."""
    op = canon_op(op)
    if op == "nop":
        return ("nop",)
    ops = list(ops)
    if ops and ops[0][0] == "rel":
        return (op, ("rel", signed(ops[0][1], 64)))
    if op in SHIFTS and len(ops) == 1:
        ops.append(("i", 1))
    w = imm_width(op, ops)
    out = []
    for o in ops:
        if o[0] == "i":
            out.append(("i", o[1] & ((1 << w) - 1)))
        elif o[0] == "m":
            lin = {}
            for r, c in o[3]:
                lin[r] = lin.get(r, 0) + c
            out.append(("m", o[1], o[2], tuple(sorted((k, v) for k, v in lin.items() if v)), signed(o[4], o[2])))
        else:
            out.append(o)
    if op in COMMUTE and len(out) == 2:
        out = sorted(out, key=repr)
    return (op,) + tuple(out)


def diff_sig(exp, got):
    """Difference signature between two canonical tuples: which fields differ and how,
    abstracting identities only to classes (register file/width, ext bit)."""
    if got is None:
        return "undecodable"
    if exp == got:
        return "same"
    out = []
    if exp[0] != got[0]:
        out.append("op:%s->%s" % (exp[0], got[0]))
    if len(exp) != len(got):
        out.append("nops:%d->%d" % (len(exp) - 1, len(got) - 1))
    for i, (a, b) in enumerate(zip(exp[1:], got[1:])):
        if a == b:
            continue
        if a[0] != b[0]:
            out.append("o%d.kind:%s->%s" % (i, a[0], b[0]))
        elif a[0] == "r":
            out.append("o%d.reg:%s->%s" % (i, regclass(a[1]), regclass(b[1])) + _regdelta(a[1], b[1]))
        elif a[0] == "i":
            out.append("o%d.imm" % i)
        elif a[0] == "rel":
            out.append("o%d.rel" % i)
        elif a[0] == "m":
            if a[1] != b[1]:
                out.append("o%d.mem.w:%s->%s" % (i, a[1], b[1]))
            if a[2] != b[2]:
                out.append("o%d.mem.asz:%s->%s" % (i, a[2], b[2]))
            if a[3] != b[3]:
                out.append("o%d.mem.lin:%s" % (i, lin_diff(dict(a[3]), dict(b[3]))))
            if a[4] != b[4]:
                out.append("o%d.mem.disp:%s" % (i, disp_diff(a[4], b[4])))
    return ";".join(out) or "differ"


def regnum(r):
    for l in (R64, R32, R16, R8):
        if r in l:
            return l.index(r)
    if r in R8H:
        return 4 + R8H.index(r)
    m = re.match(r"^(?:xmm|ymm|mm)(\d+)$", r)
    if m:
        return int(m.group(1))
    return -1


def regclass(r):
    if r in R8H:
        return "r8h"
    m = re.match(r"^(xmm|ymm|mm)\d+$", r)
    if m:
        return m.group(1)
    return "r%d" % REGW.get(r, 0)


def _regdelta(a, b):
    na, nb = regnum(a), regnum(b)
    if na == nb:
        return ""
    if na - nb == 8:
        return "(ext-lost)"
    if nb - na == 8:
        return "(ext-gained)"
    return "(num)"


def lin_diff(e, g):
    """classify how a decoded linear address form differs from the expected one"""
    if sum(e.values()) == sum(g.values()) and len(e) == len(g):
        # same coefficients, registers renamed?
        ee = sorted((c, regnum(r), regclass(r)) for r, c in e.items())
        gg = sorted((c, regnum(r), regclass(r)) for r, c in g.items())
        lost = gained = other = 0
        rem = list(g.items())
        for r, c in e.items():
            if g.get(r) == c:
                continue
            lo = [x for x in g if regclass(x) == regclass(r) and regnum(x) == regnum(r) - 8 and x not in e]
            hi = [x for x in g if regclass(x) == regclass(r) and regnum(x) == regnum(r) + 8 and x not in e]
            if lo:
                lost += 1
            elif hi:
                gained += 1
            else:
                other += 1
        if not other and lost and not gained:
            return "ext-lost"
        if not other and gained and not lost:
            return "ext-gained"
    dropped = [r for r in e if r not in g]
    added = [r for r in g if r not in e]
    if dropped and not added and all(g.get(r) == c for r, c in e.items() if r in g):
        return "dropped"
    if added and not dropped and all(e.get(r) == c for r, c in g.items() if r in e):
        return "added"
    if set(e) == set(g):
        return "coeff"
    return "other"


def disp_diff(e, g):
    if e < 0 and g == (e & 0xff):
        return "neg8-zero-extended"
    if e < 0 and g == (e & 0xffffffff):
        return "neg32-zero-extended"
    if g == 0:
        return "lost"
    if e == 0:
        return "spurious"
    return "other"


def far_operand_size(h):
    """operand size (16/32/64) of a far indirect branch, read off the prefixes of the raw encoding"""
    b = bytes.fromhex(h)
    i = 0
    o16 = False
    while i < len(b) and b[i] in (0x66, 0x67, 0xf2, 0xf3, 0x2e, 0x3e, 0x26, 0x36, 0x64, 0x65):
        o16 = o16 or b[i] == 0x66
        i += 1
    if i < len(b) and 0x40 <= b[i] <= 0x4f and (b[i] & 8):
        return 64
    return 16 if o16 else 32
