"""C15 - an instance's earlier history does not influence later results."""
import itertools
from .. import common

P_OK = "mov rax, 0x7fffffff\nlea r15, [rax+rsp]\nlea rcx, [2*rbx]\nadd rax, rbx\nret"
P_OK2 = "vpaddb ymm1, ymm2, ymm3\npush r9\njmp 4\nmov qword [rbx+rcx*2], 5\nnop7"
# failing programs share their successfully parsed lines with the final programs, and those lines are option-sensitive: whatever
# a failed call leaves behind (parse caches, flags, modes) then meets the very same text under possibly different options
# (seeded change C15-parse-memo-survives-failed-call was missed while failing and final programs had no line in common)
P_BAD = "mov rax, 0x7fffffff\nbogus rax\nret"
P_BAD2 = "lea r15, [rax+rsp]\nlea rcx, [2*rbx]\nadd rax, [rbx\nret"
P_LONG = "\n".join(["mov rax, 0x7fffffff", "lea rdx, [rcx+rsp]"] * 15)
P_HUGE = "\n".join(["mov rax, 0x7fffffff", "lea rdx, [rcx+rsp]", "mov rax, 0x1122334455667788"] * 300)  # does not fit a 4096-byte caller buffer
P_SIB = "lea r15, [rax+rsp]\nlea rcx, [2*rbx]\nmov rdx, 0x000000007fffffff\nret"
P_ONES = "mov rax, -1\nadd rcx, 0xffffffffffffffff\npush -1\nand eax, 18446744073709551615\nret"  # the value strtoul also returns on overflow
P_OVER = "mov rax, 0x7fffffff\nmov rcx, 0x10000000000000000\nret"  # a literal that does not fit 64 bits: the call fails, errno keeps ERANGE

# history alphabet (14 symbols). 'cfg' symbols are replayed on the fresh instance too.
ALPHA = {
    "other+": (["new 1 int", "asm 1 %s" % common.hx(P_OK2), "del 1"], False),
    "other": (["new 2 ext 64 H 0xcc", "opt 2 all 0"], False),
    "mov0": (["opt 0 mov 0"], True), "mov1": (["opt 0 mov 1"], True), "all2": (["opt 0 all 2"], True),
    "sib0": (["opt 0 sib 0"], True), "nobase1": (["opt 0 nobase 1"], True),
    "chunk8": (["chunk 0 8"], True), "chunk0": (["chunk 0 0"], True),
    "setoff": (["setoff 0 37"], False),
    "asm": (["asm 0 %s" % common.hx(P_OK)], False),
    "asmbad": (["asm 0 %s" % common.hx(P_BAD)], False),
    "cnt8": (["cnt 0 8 %s" % common.hx(P_OK2)], False),
    "cntbad": (["cnt 0 1 %s" % common.hx(P_BAD2)], False),
}
EXTRA = {  # used by the random part only
    "asmhuge": (["asm 0 %s" % common.hx(P_HUGE)], False),
    "asmbad2": (["asm 0 %s" % common.hx(P_BAD2)], False),
    "cntbad8": (["cnt 0 8 %s" % common.hx(P_BAD)], False),
    "otherbad": (["new 3 ext 4096 H 0xcc", "opt 3 all 0", "asm 3 %s" % common.hx(P_BAD), "del 3"], False),
    "cnt0": (["cnt 0 0 %s" % common.hx(P_OK)], False),
    "debug1": (["debug 0 1"], True), "debug0": (["debug 0 0"], True),
    "chunk16": (["chunk 0 16"], True), "swap0": (["opt 0 swap 0"], True), "all1": (["opt 0 all 1"], True), "odd": (["opt 0 all 7"], True),
    "setoff0": (["setoff 0 0"], False), "asm2": (["asm 0 %s" % common.hx(P_OK2)], False),
    "chunk1": (["chunk 0 1"], True), "chunk2": (["chunk 0 2"], True), "chunk3": (["chunk 0 3"], True), "chunk4096": (["chunk 0 4096"], True),
    "chunkmax": (["chunk 0 18446744073709551615"], True), "setoffneg": (["setoff 0 -5"], False),
    "getters": (["getoff 0", "setoff 0 3", "sumoff 0"], False),  # asm_get_offset / asm_get_code are pure
    "setoffcur": (["setoffcur 0"], False), "setoffprev": (["setoffprev 0"], False),  # asm_set_offset to the current offset (-1 after a failure) / to the start of the last call
    "getbuf": (["asmold 0 %s" % common.hx("nop")], False),  # asm_create_bin_file and the deprecated entry point + asm_get_buffer in the middle of a history
    "errno34": (["errno 0 34"], False), "errno22": (["errno 0 22"], False), "asmover": (["asm 0 %s" % common.hx(P_OVER)], False),
}
FINALS = [("asm", P_OK), ("asm", P_OK2), ("cnt 8", P_OK2), ("asm", P_LONG), ("asm", P_BAD), ("cnt 3", P_OK), ("asm", P_SIB), ("asm", P_ONES)]
START = 11


def script(hist, final, table, fresh, kind):
    cmds = ["new 0 %s" % kind]
    for s in hist:
        c, is_cfg = table[s]
        if fresh and not is_cfg:
            continue
        cmds += c
    cmds.append("setoff 0 %d" % START)
    op, text = final
    cmds.append("%s %s" % (op.replace("asm", "asm 0").replace("cnt ", "cnt 0 "), common.hx(text)))
    cmds.append("getoff 0")
    cmds.append("dump 0 %d %d" % (START, START + 420))
    return cmds


def outcome(r):
    """observable result of the final call: (rc, resulting offset, count, bytes written [start, offset))"""
    if r["crash"]:
        return ("crash", r["crash"]["sig"])
    recs = r["records"]
    a = recs[-3].split()
    off = int(recs[-2].split()[1])
    d = recs[-1].split()[1]
    d = "" if d == "-" else d
    n = max(0, off - START)
    pfx = int(a[5])
    return (int(a[1]), off, a[4], d[:2 * n], pfx)


def run(tier):
    v = common.Verdict("C15", tier)
    full = tier == "thorough"
    rnd = common.rng("c15")
    binary = common.build("asan")
    table = dict(ALPHA)
    table.update(EXTRA)
    import os
    table["bin"] = (["bin 0 %s" % os.path.join(common.workdir(), "c15-junk.bin")], False)  # asm_create_bin_file in the middle of a history (the file itself is not looked at here)
    syms = list(ALPHA)
    hists = [()]
    for L in (1, 2, 3):
        hists += list(itertools.product(syms, repeat=L))
    n_exh = len(hists)
    allsyms = list(table)
    nrand = 20000 if not full else 400000
    for _ in range(nrand // len(FINALS)):
        hists.append(tuple(rnd.choice(allsyms) for _ in range(rnd.randrange(4, 31))))
    jobs = []
    for hi, h in enumerate(hists):
        kind = "ext 4096 H 0xcc" if hi % 2 == 0 else "int"
        for f in FINALS:
            jobs.append((h, f, kind))
    # ---- "storms": the same action repeated N times with N around the capacities of narrow counters (2^8, 2^9, 2^16) between an
    # assemble call and the final one. What matters is a COUNT, which no bounded alphabet reaches.
    units = {"movtoggle1": (["opt 0 mov 1", "opt 0 mov 2", "opt 0 mov 0"], True), "movtoggle": (["opt 0 mov 1", "opt 0 mov 2"], True), "swaptoggle": (["opt 0 swap 0", "opt 0 swap 1"], True), "nobasetoggle": (["opt 0 nobase 0", "opt 0 nobase 1"], True),
             "alltoggle": (["opt 0 all 0", "opt 0 all 1"], True), "chunktoggle": (["chunk 0 8", "chunk 0 0"], True), "setoffs": (["setoff 0 5", "setoff 0 9"], False),
             "smallasm": (["setoff 0 0", "asm 0 %s" % common.hx("nop")], False), "smallcnt": (["setoff 0 0", "cnt 0 4 %s" % common.hx("mov rax, rbx")], False),
             "asmcnt": (["setoff 0 0", "asm 0 %s" % common.hx("mov rax, 0x7fffffff"), "setoff 0 3", "cnt 0 4 %s" % common.hx("lea r15, [rax+rsp]")], False),
             "others": (["new 1 ext 64 H 0xcc", "del 1"], False), "failing": (["asm 0 %s" % common.hx("bogus")], False)}
    nstorm = 0
    for uname, (ucmds, ucfg) in sorted(units.items()):
        # N = number of REPETITIONS of the unit between the two assemblies of the same text: around 2^8, 2^9 and 2^16 (a per-instance
        # counter of calls / changes that wraps makes the N-th repetition special for N = 2^k - 1, 2^k or 2^k + 1)
        ns = [127, 128, 254, 255, 256, 257, 258, 511, 512, 513] + ([65534, 65535, 65536, 65537] if uname in ("movtoggle", "alltoggle", "failing", "smallasm", "smallcnt", "others", "setoffs") else []) + ([1023, 1024, 4096, 131071] if full else [])
        for N in ns:
            sym = "storm:%s*%d" % (uname, N)
            table[sym] = (ucmds * N, ucfg)
            for pre in (("mov0", "asm"), ("sib0", "nobase1", "asm"), ("all1", "cnt8")):
                if N > 60000 and pre != ("mov0", "asm"):
                    continue
                for f in ((FINALS[0], FINALS[6]) if N < 60000 else (FINALS[0],)):
                    jobs.append((pre + (sym,), f, "ext 4096 H 0xcc" if nstorm % 2 else "int"))
                    nstorm += 1
                    if not ucfg:
                        # the options CHANGE after the storm: something remembered from before it (a parse, a decision) is then stale
                        jobs.append((pre + (sym, "mov1", "sib0"), f, "ext 4096 H 0xcc" if nstorm % 2 else "int"))
                        nstorm += 1
    # ---- programs from the WHOLE corpus (every instruction family) as earlier and as final programs: whatever an earlier call leaves
    # behind per mnemonic / operand shape / line text then meets a final program that shares mnemonics (other operands), lines or
    # everything with it - after a successful call, a call that failed in the middle, a counting call or a long call (> 4 KiB of text),
    # with the options unchanged or changed in between
    from .. import corpus
    from .. import isa
    rep = corpus.representative(rnd, 2) + rnd.sample(isa.gen_int_regs(), 4000) + isa.gen_vec_regs(corners_only=True, rnd=rnd, frac=0.0) + isa.gen_mem(False, rnd, per_class=12) + rnd.sample(isa.gen_imm(rnd, False), 3000)
    bymn = {}
    for c in rep:
        t = c["text"]
        if t.startswith(("j", "call", "xbegin", "ret", "loop")):
            continue
        bymn.setdefault(t.split()[0], []).append(t)
    mns = sorted(bymn)
    CFG = ["mov0", "mov1", "all2", "sib0", "nobase1", "swap0", "all1", "chunk8", "chunk0", "chunk16"]
    ncorp = 2500 if not full else 60000
    for k in range(ncorp):
        E = [rnd.choice(bymn[rnd.choice(mns)]) for _ in range(rnd.randrange(2, 12))]
        how = k % 5
        F = [l if rnd.random() < (1.0 if how == 4 else 0.4) else rnd.choice(bymn[l.split()[0]]) for l in E]
        if k % 7 == 3:
            # near-duplicates: the final program's lines differ from the earlier program's in the LAST digit only (whatever remembers a
            # line by less than its whole text then takes one for the other); both sides of the comparison assemble the same text
            import re as _re
            F = []
            for l in E:
                m_ = list(_re.finditer(r"[0-9](?=[^0-9]*$)", l))
                F.append(l[:m_[-1].start()] + ("1" if l[m_[-1].start()] != "1" else "2") + l[m_[-1].end():] if m_ and _re.search(r"\d", l) else l)
        rnd.shuffle(F) if k % 3 == 0 else None
        if how == 1:
            Ecmd = "asm 0 %s" % common.hx("\n".join(E[:len(E) // 2] + [rnd.choice(["bogus rax", "mov rax, [rbx", "add rax, xmm1, 5"])] + E[len(E) // 2:]))
        elif how == 2:
            Ecmd = "cnt 0 %d %s" % (rnd.choice([2, 8, 16]), common.hx("\n".join(E)))
        elif how == 3:
            Ecmd = "asm 0 %s" % common.hx("\n".join(E * 40))
        else:
            Ecmd = "asm 0 %s" % common.hx("\n".join(E))
        sym = "prog:%d" % k
        table[sym] = ([Ecmd], False)
        pre = tuple(rnd.sample(CFG, rnd.randrange(0, 3)))
        mid = tuple(rnd.sample(CFG, rnd.randrange(0, 3))) if k % 2 else ()
        jobs.append((pre + (sym,) + mid, (rnd.choice(["asm", "asm", "cnt 8"]), "\n".join(F)), "ext 4096 H 0xcc" if k % 2 else "int"))
    used = common.run_cases(binary, [script(h, f, table, False, kind) for (h, f, kind) in jobs], tag="c15u")
    fresh_keys = {}
    for (h, f, kind) in jobs:
        key = (tuple(s for s in h if table[s][1]), f, kind)
        fresh_keys.setdefault(key, None)
    fk = list(fresh_keys)
    fres = common.run_cases(binary, [script(k[0], k[1], table, True, k[2]) for k in fk], tag="c15f")
    for k, r in zip(fk, fres):
        fresh_keys[k] = outcome(r)
    stats = {"storm_histories": nstorm, "exhaustive_histories_upto3": n_exh, "random_histories": len(hists) - n_exh, "final_calls": len(FINALS), "fresh_references": len(fk), "corpus_program_histories": ncorp, "corpus_mnemonics": len(mns),
             "final_ok": 0, "final_failed_consistently": 0}
    for (h, f, kind), r in zip(jobs, used):
        v.count()
        key = (tuple(s for s in h if table[s][1]), f, kind)
        want = fresh_keys[key]
        got = outcome(r)
        case = {"key": "hist=%s final=%s(%s..) buf=%s" % (" ".join(h)[:200], f[0], f[1][:20].replace("\n", ";"), kind.split()[0]), "fam": "history", "len": len(h)}
        if got[0] == "crash":
            v.violation(case, got[1], r["crash"]["stderr"][-1000:])
            continue
        if want[0] == "crash":
            v.violation(case, "fresh-instance:" + want[1], None)
            continue
        if got[4]:
            v.violation(case, "failed/final call changed bytes before its start", "pfx_bad=%d" % got[4])
            continue
        if got != want:
            fields = [nm for nm, a, b in zip(("rc", "offset", "count", "bytes"), got, want) if a != b]
            v.violation(case, "differs-from-fresh:" + ",".join(fields), "used=%r fresh=%r" % (got[:3] + (got[3][:80],), want[:3] + (want[3][:80],)))
            continue
        if got[0] == 0:
            stats["final_ok"] += 1
        else:
            stats["final_failed_consistently"] += 1
        v.distinct((h, f[0], f[1][:10], kind))
        if v.cov["evaluations"] % 4000 == 1:
            v.sample({"history": list(h), "final": [f[0], f[1].split("\n")[0] + " ..."], "result": {"rc": got[0], "offset": got[1], "count": got[2], "bytes": got[3][:60]}})
    v.cov["rule"] = ("histories over a 14-symbol alphabet (other instances created/destroyed, option setters, chunk on/off, set offset, successful / malformed / counting / failing-counting calls): ALL histories of "
                     "length <= 3 (2955) x 6 final calls, then seeded histories of length 4-30 over a 24-symbol alphabet (adds out-of-room calls, c<2 counting, debug, odd option values); caller and "
                     "library buffers alternate. After asm_set_offset the final call's (rc, offset, count, bytes) must equal the same call on a fresh instance that received only the history's "
                     "configuration calls; bytes before the call's start must be intact. Plus 'storms': an assemble call, then one action (option / chunk toggles, offsets, small assemble or counting calls, failing calls, other instances created and destroyed) repeated N = 254..258, 510..514 (65534..65538 for option toggles) times, then the final call; and the ambient errno set to ERANGE/EINVAL before a call; and programs drawn from the whole corpus (all instruction families) as earlier program (successful, failing in the middle, counting, > 4 KiB of text) and as final program sharing mnemonics / lines / everything with it, options unchanged or changed in between")
    v.cov["exhaustive"] = True
    v.cov.update(stats)
    return v.finish(None, stats["final_ok"] > 1000, "too few successful final calls: %r" % stats)
