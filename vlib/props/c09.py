"""C09 - arbitrary input text never causes memory errors, crashes or hangs (fuzzing + directed sweeps + MSan)."""
import glob, os, re, shutil, subprocess
from concurrent.futures import ThreadPoolExecutor
from .. import common, corpus, isa

TEMPLATES = ["mov rax, rbx", "add qword [rax+rcx*2+0x10], 0x7f", "lea rcx, [2*rax-8]", "vpaddb ymm1, ymm2, [rbx+r9*8+0x1000]", "jmp short 4", "shld rax, rbx, cl"]
KEYWORDS = ["byte", "word", "dword", "qword", "short", "long", "far"]


def fuzz_build(kind):
    """kind: 'fuzz' (clang libFuzzer+ASan+UBSan), 'msan' (clang MSan standalone replayer)"""
    out = os.path.join(common.workdir(), "fuzz-" + kind)
    if os.path.exists(out):
        return out
    tgt = os.path.join(common.VERIF, "harness", "fuzz_target.c")
    base = ["clang", "-O1", "-g", "-w", "-D" + common.GUARD, "-I" + os.path.join(common.REPO, "src")]
    if kind == "fuzz":
        fl = ["-fsanitize=fuzzer,address,undefined", "-fno-sanitize-recover=all"]
    else:
        fl = ["-fsanitize=memory", "-fsanitize-memory-track-origins", "-fno-sanitize-recover=all", "-DFUZZ_STANDALONE"]
    r = subprocess.run(base + fl + common.lib_sources() + [tgt, "-o", out], capture_output=True, text=True)
    if r.returncode:
        raise common.HarnessError("fuzz target build (%s) failed: %s" % (kind, r.stderr[-2000:]))
    return out


def write_seeds(d, rnd):
    os.makedirs(d, exist_ok=True)
    rep = corpus.representative(rnd, 1, cap=600)
    lines = sorted(set(c["text"] for c in rep))
    n = 0
    for i, l in enumerate(lines):
        hdr = bytes([rnd.randrange(4), rnd.randrange(3), rnd.randrange(3), i % 6, rnd.choice([0, 1, 2, 8, 16, 64]), i % 2, rnd.randrange(8), rnd.randrange(256)])
        with open(os.path.join(d, "l%04d" % i), "wb") as f:
            f.write(hdr + l.encode())
        n += 1
    for k in range(60):
        prog = "\n".join(rnd.choice(lines) for _ in range(rnd.randrange(2, 30)))
        hdr = bytes([rnd.randrange(4), rnd.randrange(3), rnd.randrange(3), k % 6, rnd.choice([0, 2, 5, 8, 16]), k % 2, 4 + k % 4, rnd.randrange(256)])
        with open(os.path.join(d, "p%03d" % k), "wb") as f:
            f.write(hdr + prog.encode())
        n += 1
    return n, lines


def write_dict(path):
    toks = set()
    for lst in (isa.ALU, isa.CMOV, isa.SETCC, isa.JCC, isa.UNARY, isa.SHIFT_IMM, isa.NOARG, isa.BMI_RMV, isa.SSE_MMX, isa.AVX_BOTH, isa.AVX_MOV, isa.AVX_IMM, KEYWORDS):
        toks |= set(lst)
    toks |= set(isa.R64 + isa.R32 + isa.R16 + isa.R8 + isa.R8H + isa.XMM + isa.YMM + isa.MM)
    toks |= {"mov", "lea", "jmp", "call", "push", "pop", "nop11", "movq", "movd", "mulx", "rorx", "xbegin", "jrcxz", "section", "global", "0x", ", ", "[", "]", "+", "-", "*", ";", ":", "%", "\n", "\r\n",
             "0x7fffffff", "0xffffffffffffffff", "*2", "*8", "[rax+", "-0x80"}
    with open(path, "w") as f:
        for t in sorted(toks):
            f.write('"%s"\n' % t.replace("\\", "\\\\").replace('"', '\\"').replace("\n", "\\x0a").replace("\r", "\\x0d"))


def sweep_cases(rnd, full):
    """directed inputs a mutation fuzzer is bad at; returns list of (name, text)"""
    out = []
    shapes = [("mov rax, 0x%s1", 12), ("add [rax+0x%s10], rbx", 21), ("lea rax, [rbx+rcx*2+0x%s8]", 26), ("jmp 0x%s4", 7), ("push 0x%s1", 8), ("vpaddb ymm1, ymm2, [rax+0x%s10]", 30),
              ("mov qword [rax], 0x%s1", 20), ("imul rax, rbx, 0x%s5", 20), ("mov rax, [0x%s10]", 16), ("test byte [rax-0x%s1], 1", 22), ("rorx rax, rbx, 0x%s1", 20), ("xbegin 0x%s1", 10)]
    tails = ["", "1", "*", "[", "-", "+", ",", "byt", "ra", "]", " ", "0x", "x"]
    for fmt, _ in shapes:
        for L in range(90, 111):
            for tail in (tails if full or L % 3 == 0 else tails[:4]):
                base = fmt % ""
                flt = len(base.replace(" ", "")) + 1  # filtered length keeps the first blank
                z = max(0, L - flt - len(tail))
                out.append(("len%d" % L, (fmt % ("0" * z)) + tail))
    for k in range(0, 9):
        for op in ("rax", "[rax]", "1", "xmm1", "ymm2", "byte [rax+rbx*2+8]", ""):
            out.append(("operands%d" % k, "mov " + ", ".join([op] * k)))
            out.append(("operands%d" % k, "vperm2i128 " + ",".join([op] * k)))
    for k1 in KEYWORDS:
        for k2 in KEYWORDS:
            for t in ("mov %s %s [rax], 1", "jmp %s %s 4", "jmp %s%s [rax]", "mov rax, %s %s", "push %s%s", "mov %s[%s], 1", "%s %s"):
                out.append(("keywords", t % (k1, k2)))
    for t in TEMPLATES:
        for pos in range(len(t) + 1):
            for b in (range(1, 256) if full else list(range(1, 0x30, 3)) + list(range(0x7b, 256, 5))):
                if b in (10, 13):
                    continue
                out.append(("byte@pos", t[:pos] + chr(b) + t[pos:]))
    for piece in ("a", "0", " ", ",", "[", "rax,", "0x", "-", "*2+", "byte "):
        out.append(("megaline", "mov rax, " + piece * (1 << 20 if piece != "byte " else 1 << 17)))
        out.append(("megaline", piece * (1 << 18)))
    out.append(("manylines", "\n".join(["add rax, rbx", "vpaddb ymm1, ymm2, ymm3", "mov rax, 0x1122334455667788", "; c", "l:"] * 20000)))
    out.append(("manylines", "nop\n" * 100000))
    # a maximum-length line (and a rejected one) behind 9 .. 999999 line breaks: anything that depends on the NUMBER of the line
    for nl in (9, 99, 999, 9999, 99999, 999999):
        for flt in (97, 98, 99, 100):
            base = "mov rax, 0x1"
            z = max(0, flt - (len(base.replace(" ", "")) + 1))
            out.append(("lineno", "\n" * nl + "mov rax, 0x" + "0" * z + "1"))
        out.append(("lineno", "\n" * nl + "bogus " + "a" * 92))
        out.append(("lineno", "nop\n" * nl + "vpaddb ymm1, ymm2, [rax+rbx*8+0x" + "0" * 60 + "10]"))
    out.append(("manylines", "\n" * 200000 + "\r\n" * 1000 + ";" * 5000))
    # lines that are SHORT after filtering but LONG as written: runs of blanks / tabs (200 .. 1 MiB; around BUFSIZ = 8192 and the other
    # powers of two) after the mnemonic, around the comma, inside the brackets, in front of the line and before a comment - in valid
    # lines and in lines that are rejected only after the filter (unknown register / mnemonic, bad operand kinds, bad address, bad
    # number), whose diagnostics may echo the line; also behind a long comment
    BASES = ["mov rax,%srbx", "mov%s rax, rbx", "%smov rax, rbx", "add qword [rax+%srcx*4], 5", "vpaddb ymm1, ymm2,%s ymm3", "ret%s", "mov rax, rbx%s; c",
             "mov rax,%srbz", "mox%s rax, rbx", "mov rax,%sxmm1", "lea rax, [rbx+%srcx*3]", "add rax,%s0x12g", "mov rax, [rbx%s", "push%s", "jmp short%s 300", "bogus%s", "mov rax,%s rbx, rcx"]
    for nb in (200, 1000, 4095, 4096, 4097, 8191, 8192, 8193, 16384, 65535, 65536, 1 << 20) if full else (1000, 4096, 8192, 8193, 65536, 1 << 20):
        for bi, bt in enumerate(BASES):
            for ch in ((" ", "\t", " \t") if full else (" \t"[(bi + nb) % 2],)):
                out.append(("blanks", bt % (ch * (nb // len(ch)))))
        out.append(("blanks", "mov rax, rbz ;" + "c" * nb))
        out.append(("blanks", "nop\n" + " " * nb + "\nmov rax, rbz" + "\t" * nb + "\nret"))
    # MANY parts inside ONE operand (the line still within the length limit): sums of 2..24 register terms, of 2..30 numbers, chains
    # of '*', runs of signs, repeated size / jump keywords, many brackets - whatever the tokenizer keeps per term in fixed-size arrays
    regs_ = ["rax", "rbx", "rcx", "rdx", "rsi", "rdi", "r8", "r9", "r10", "r11", "r12", "r13", "r14", "r15"]
    for n in (2, 3, 4, 5, 6, 8, 12, 16, 20, 24):
        out.append(("depth", "mov rax, [" + "+".join(regs_[i % 14] for i in range(n)) + "]"))
        out.append(("depth", "lea rax, [" + "+".join(regs_[i % 14] + "*2" for i in range(min(n, 16))) + "]"))
        out.append(("depth", "mov rax, [rbx" + "+1" * n + "]"))
        out.append(("depth", "mov rax, [rbx" + "-0x10" * min(n, 18) + "]"))
        out.append(("depth", "mov rax, [rbx" + "*2" * n + "]"))
        out.append(("depth", "mov rax, [" + "2*" * n + "rbx]"))
        out.append(("depth", "add rax, " + "-" * n + "5"))
        out.append(("depth", "add rax, " + "+" * n + "5"))
        out.append(("depth", "mov " + "byte " * min(n, 16) + "[rax], 1"))
        out.append(("depth", "mov " + "qword dword " * min(n, 7) + "[rax], 1"))
        out.append(("depth", "jmp " + "short " * min(n, 14) + "4"))
        out.append(("depth", "jmp " + "far " * min(n, 20) + "[rax]"))
        out.append(("depth", "mov rax, " + "[" * n + "rbx" + "]" * n))
        out.append(("depth", "mov rax, [rbx]" + "]" * n))
        out.append(("depth", "mov rax" + ", rbx" * n))
        out.append(("depth", "vperm2i128 ymm1, ymm2, [rax" + "+rbx*2" * min(n, 12) + "], 1"))
        out.append(("depth", "mov rax, 0x" + "0x" * n + "1"))
        out.append(("depth", "mov rax, [rbx+rcx*" + "8" * n + "]"))
    return out


def run(tier):
    v = common.Verdict("C09", tier)
    full = tier == "thorough"
    rnd = common.rng("c09")
    wd = common.workdir()
    stats = {}
    # ------------------------------------------------------------------ (a) libFuzzer
    fz = fuzz_build("fuzz")
    seeds = os.path.join(wd, "seeds")
    nseeds, lines = write_seeds(seeds, rnd)
    dpath = os.path.join(wd, "fuzz.dict")
    write_dict(dpath)
    total = int(os.environ.get("VERIF_FUZZ_RUNS", "2000000" if not full else "200000000"))
    njobs = common.NPROC
    per = total // njobs
    env = dict(os.environ)
    env["ASAN_OPTIONS"] = "detect_leaks=0:abort_on_error=0:allocator_may_return_null=1:quarantine_size_mb=8:exitcode=97"
    env["UBSAN_OPTIONS"] = "print_stacktrace=1:exitcode=97"

    def fuzz_job(k):
        od = os.path.join(wd, "fz%d" % k)
        os.makedirs(os.path.join(od, "corpus"), exist_ok=True)
        os.makedirs(os.path.join(od, "art"), exist_ok=True)
        cmd = [fz, os.path.join(od, "corpus"), seeds, "-runs=%d" % per, "-seed=%d" % (common.SEED * 131 + k + 1), "-max_len=4096", "-timeout=10", "-close_fd_mask=3", "-dict=" + dpath,
               "-artifact_prefix=" + os.path.join(od, "art") + "/", "-print_final_stats=1", "-rss_limit_mb=4096", "-len_control=50"]
        try:
            r = subprocess.run(cmd, capture_output=True, env=env, timeout=max(3600, per / 2000), errors="replace", text=True)
            return r.returncode, r.stderr
        except subprocess.TimeoutExpired as e:
            return -999, "outer timeout"

    with ThreadPoolExecutor(max_workers=njobs) as ex:
        fres = list(ex.map(fuzz_job, range(njobs)))
    execs = 0
    cov = 0
    ft = 0
    arts = []
    for k, (rc, err) in enumerate(fres):
        m = re.findall(r"stat::number_of_executed_units:\s*(\d+)", err)
        if m:
            execs += int(m[-1])
        m = re.findall(r"cov: (\d+) ft: (\d+)", err)
        if m:
            cov = max(cov, int(m[-1][0]))
            ft = max(ft, int(m[-1][1]))
        for a in glob.glob(os.path.join(wd, "fz%d" % k, "art", "*")):
            arts.append((k, a))
        if rc not in (0,) and not glob.glob(os.path.join(wd, "fz%d" % k, "art", "*")):
            v.violation({"key": "fuzz job %d exit %s without artifact" % (k, rc), "fam": "fuzz"}, common.san_summary(err) or "fuzz-job-exit=%s" % rc, err[-1500:])
    stats.update({"fuzz_executions": execs, "fuzz_edges_covered": cov, "fuzz_features": ft, "fuzz_jobs": njobs, "seed_inputs": nseeds, "artifacts": len(arts)})
    v.count(execs)
    for k, a in arts:
        kind = os.path.basename(a).split("-")[0]
        try:
            r = subprocess.run([fz, a, "-close_fd_mask=1", "-timeout=10"], capture_output=True, env=env, text=True, errors="replace", timeout=60)
        except subprocess.TimeoutExpired as te:  # the replay of a timeout artifact hangs as well: that is the finding
            r = subprocess.CompletedProcess([], -999, "", "replay of the artifact did not terminate within 60 s")
        sig = common.san_summary(r.stderr)
        if not sig:
            sig = "fuzz:" + kind + (":oracle-rc" if "FUZZ-ORACLE" in r.stderr else "")
        data = open(a, "rb").read()
        keep = os.path.join(common.VERIF, "replay", "C09")
        os.makedirs(keep, exist_ok=True)
        shutil.copy(a, os.path.join(keep, os.path.basename(a)))
        v.violation({"key": "%s %s" % (sig, os.path.basename(a)), "fam": "fuzz", "artifact": os.path.join(keep, os.path.basename(a)), "control_bytes": data[:8].hex(), "text": data[8:200].decode("latin-1")},
                    sig, r.stderr[-2500:])
    # ------------------------------------------------------------------ (b) directed sweeps through the driver
    sw = sweep_cases(rnd, full)
    asan = common.build("asan")
    cases, meta = [], []
    for i, (name, text) in enumerate(sw):
        big = len(text) > 100000
        variants = [("ext", "asm")] if (i % 3 and not big) else [("int", "asm"), ("ext", "fit"), ("int", "cnt")]
        for bufk, mode in variants:
            cmds = ["new 0 int" if bufk == "int" else "new 0 ext 4096 H 0xcc"]
            if (i + len(mode)) % 7 == 0 and len(text) < 300000:
                cmds.append("debug 0 1")  # with the printers on (per instruction, and the whole buffer in chunk rows under fitting)
            if mode == "fit":
                cmds.append("chunk 0 16")
            cmds.append(("cnt 0 8 %s" if mode == "cnt" else "asm 0 %s") % common.hx(text))
            cmds.append("getoff 0")
            cases.append(cmds)
            meta.append((name, text, bufk, mode))
    res = common.run_cases(asan, cases, tag="c09s", per_case_timeout=20)
    acc = rej = 0
    for (name, text, bufk, mode), r in zip(meta, res):
        v.count()
        case = {"key": "sweep %s/%s/%s: %r" % (name, bufk, mode, text[:80]), "fam": "sweep_" + name.rstrip("0123456789"), "text": text[:300], "len": len(text)}
        if r["crash"]:
            v.violation(case, r["crash"]["sig"], (r["crash"]["what"] + "\n" + r["crash"]["stderr"][-1500:]))
            continue
        a = r["records"][-2].split()
        if a[0] != "A" or a[1] not in ("0", "1"):
            v.violation(case, "return-value-not-0/1", r["records"][-2])
            continue
        acc += a[1] == "0"
        rej += a[1] == "1"
        v.distinct((name, text[:200], len(text), bufk, mode))
    stats.update({"sweep_inputs": len(sw), "sweep_calls": len(cases), "sweep_accepted": acc, "sweep_rejected": rej})
    # ---- (b2) the LONGEST encodings the library can emit, in every mode and chunk geometry. Whatever the library does with an
    # immediate the destination cannot hold (it emits up to 17 bytes for 'add qword [eax+ebx*8+disp32], imm40'), every path that
    # handles an instruction - plain, padding + re-encoding in chunk fitting, counting - must cope with that length.
    longl = isa.long_lines(rnd, full)
    probe = common.run_lines(asan, [("211", l, 0) for l in longl], tag="c09l")
    cases, meta = [], []
    lens_seen = {}
    for l, pr in zip(longl, probe):
        v.count()
        if "crash" in pr:
            v.violation({"key": "long %r" % l, "fam": "sweep_long", "text": l}, pr["crash"]["sig"], pr["crash"]["stderr"][-1500:])
            continue
        if pr["rc"] != 0:
            continue
        L = len(pr["bytes"]) // 2
        lens_seen[L] = lens_seen.get(L, 0) + 1
        geos = set()
        for c in (L - 1, L, L + 1, L + 2, 16, 17, 18, 20, 32):
            if c < 2:
                continue
            for kpre in (c - 1, max(0, c - L + 1), rnd.randrange(0, c)):
                geos.add((c, kpre))
        for (c, kpre) in (sorted(geos) if full else rnd.sample(sorted(geos), 5)):
            text = "\n".join(["clc"] * kpre + [l, l, "ret"])
            for bufk, mode in (("ext", "fit"), ("int", "fit"), ("ext", "cnt")) if (full or (c + kpre) % 2) else (("ext", "fit"),):
                cmds = ["new 0 int" if bufk == "int" else "new 0 ext 400 H 0xcc"]
                if mode == "fit":
                    cmds.append("chunk 0 %d" % c)
                cmds.append(("cnt 0 %d %%s" % c if mode == "cnt" else "asm 0 %s") % common.hx(text))
                cmds.append("getoff 0")
                cases.append(cmds)
                meta.append((l, L, c, kpre, bufk, mode))
    res = common.run_cases(asan, cases, tag="c09g", per_case_timeout=20)
    for (l, L, c, kpre, bufk, mode), r in zip(meta, res):
        v.count()
        case = {"key": "long %r len=%d chunk=%d after %d bytes %s/%s" % (l, L, c, kpre, bufk, mode), "fam": "sweep_long", "text": l, "len": L, "c": c}
        if r["crash"]:
            v.violation(case, r["crash"]["sig"], (r["crash"]["what"] + "\n" + r["crash"]["stderr"][-1500:]))
            continue
        a = r["records"][-2].split()
        if a[0] != "A" or a[1] not in ("0", "1"):
            v.violation(case, "return-value-not-0/1", r["records"][-2])
            continue
        v.distinct(("long", l, c, kpre, bufk, mode))
    stats.update({"long_encoding_lines": len(longl), "long_encoding_lengths_seen": dict(sorted(lens_seen.items())), "long_encoding_geometry_calls": len(cases)})
    # ---- (b3) programs whose code runs across the growth thresholds of the library-managed buffer (every 6000 bytes) while chunk
    # fitting pads / counting counts there: the position of the last instructions sweeps through each threshold, for chunk sizes that
    # do and do not divide 6000; every growth is forced to MOVE the mapping (ld --wrap mremap), so a pointer kept across it faults
    wrapb = common.build("wrap")
    cases, meta = [], []
    cs3 = [7, 9, 16, 17, 24, 100, 143, 255, 256, 1000, 4097] + ([3, 11, 13, 33, 64, 77, 299, 600, 5999, 6001] if full else [])
    tails3 = [["mov rax, 0x1122334455667788", "mov qword [eax+ebx*8+0x11223344], 0x55667788", "ret"], ["nop7", "nop11", "vpaddb ymm8, ymm9, [r10+r11*8+0x11223344]", "ret"],
              ["add qword [eax+ebx*8+0x11223344], 0x1122334455", "test qword [r8d+r9d*8+0x11223344], 0x1122334455667788", "clc"]]
    for T in (6000, 12000) if not full else (6000, 12000, 18000, 66000):
        for p in (range(T - 45, T + 8) if full else range(T - 30, T + 4)):
            for c in (cs3 if full else rnd.sample(cs3, 4)):
                tl = rnd.choice(tails3)
                text = "nop\n" * p + "\n".join(tl)
                mode = "fit" if (p + c) % 3 else "cnt"
                cmds = ["wrap reset", "wrap forcemove 1", "new 0 int"]
                if mode == "fit":
                    cmds.append("chunk 0 %d" % c)
                cmds.append(("cnt 0 %d %%s" % c if mode == "cnt" else "asm 0 %s") % common.hx(text))
                cmds += ["getoff 0", "wrapreport"]
                cases.append(cmds)
                meta.append((T, p, c, mode, tl[0]))
    res = common.run_cases(wrapb, cases, tag="c09t", per_case_timeout=20)
    moves = 0
    for (T, p, c, mode, t0), r in zip(meta, res):
        v.count()
        case = {"key": "threshold %d: %d nops + %r chunk=%d %s" % (T, p, t0, c, mode), "fam": "sweep_threshold", "c": c, "len": p}
        if r["crash"]:
            v.violation(case, r["crash"]["sig"], (r["crash"]["what"] + "\n" + r["crash"]["stderr"][-1500:]))
            continue
        a = r["records"][-3].split()
        if a[0] != "A" or a[1] not in ("0", "1"):
            v.violation(case, "return-value-not-0/1", r["records"][-3])
            continue
        moves += int(r["records"][-1].split("moves=")[1].split()[0])
        v.distinct(("threshold", T, p, c, mode))
    stats.update({"growth_threshold_calls": len(cases), "growth_threshold_forced_moves": moves})
    # ---- (b4) write positions at the far end of the int range on a library-managed buffer (asm_set_offset takes any int): the call
    # either grows the buffer that far or fails - without overflow in the room arithmetic - and the instance stays usable
    cases, meta = [], []
    IM = 2**31 - 1
    offs = [IM, IM - 1, IM - 10, IM - 19, IM - 20, IM - 21, IM - 40, IM - 5999, IM - 6000, IM - 6020, IM - 12000, 2**30, 2**30 + 2**29, 2**28, 10**8, 65536 * 3 + 1]
    if full:
        offs += [IM - k for k in range(22, 6100, 97)] + [2**k for k in range(17, 31)] + [2**k - 20 for k in range(17, 32)]
    for off in offs:
        for mode in ("asm", "fit", "cnt"):
            text = "mov rax, 0x1122334455667788\nmov qword [eax+ebx*8+0x11223344], 0x55667788\nret"
            cmds = ["new 0 int", "asm 0 %s" % common.hx("clc\nret"), "setoff 0 %d" % off]
            if mode == "fit":
                cmds.append("chunk 0 %d" % rnd.choice([16, 17, 4096]))
            cmds.append(("cnt 0 8 %s" if mode == "cnt" else "asm 0 %s") % common.hx(text))
            cmds += ["chunk 0 0", "setoff 0 2", "asm 0 %s" % common.hx("nop"), "dump 0 0 3", "del 0"]
            cases.append(cmds)
            meta.append((off, mode))
    res = common.run_cases(asan, cases, tag="c09o", per_case_timeout=60)
    grown = 0
    for (off, mode), cmds, r in zip(meta, cases, res):
        v.count()
        case = {"key": "offset %d on a library buffer, %s" % (off, mode), "fam": "sweep_offset", "offset": off, "script": cmds}
        if r["crash"]:
            v.violation(case, r["crash"]["sig"], (r["crash"]["what"] + "\n" + r["crash"]["stderr"][-1500:]))
            continue
        recs = r["records"]
        a = recs[4 if mode == "fit" else 3].split()
        if a[0] != "A" or a[1] not in ("0", "1"):
            v.violation(case, "return-value-not-0/1", " ".join(a))
            continue
        if a[1] == "0" and int(a[3]) <= off:
            v.violation(case, "offset-after-success-not-advanced", " ".join(a))
            continue
        d = recs[-2].split()
        if d[0] != "D" or d[1] != "f8c390":
            v.violation(case, "instance-unusable-or-earlier-code-lost", " | ".join(recs[-4:]))
            continue
        grown += a[1] == "0"
        v.distinct(("offset", off, mode))
    stats.update({"huge_offset_calls": len(cases), "huge_offset_calls_that_grew": grown})
    v.sample({"sweep": "len100", "text": [t for n, t in sw if n == "len100"][0]})
    v.sample({"sweep": "keywords", "text": [t for n, t in sw if n == "keywords"][5]})
    # ------------------------------------------------------------------ (c) MSan replay of seeds + the fuzzer's corpus + sweeps
    ms = fuzz_build("msan")
    files = sorted(glob.glob(os.path.join(seeds, "*")))
    gen = []
    for k in range(njobs):
        gen += sorted(glob.glob(os.path.join(wd, "fz%d" % k, "corpus", "*")))
    rnd.shuffle(gen)
    files += gen[:4000 if not full else 100000]
    swd = os.path.join(wd, "sweepfiles")
    os.makedirs(swd, exist_ok=True)
    for i, (name, text) in enumerate(sw):
        if len(text) > 200000 and i % 2:
            continue
        p = os.path.join(swd, "s%05d" % i)
        with open(p, "wb") as f:
            f.write(bytes([i % 4, i % 3, (i // 3) % 3, i % 6, [0, 1, 8, 16][i % 4], i % 2, 6, 0]) + text.encode("latin-1"))
        files.append(p)
    menv = dict(os.environ, MSAN_OPTIONS="exitcode=97:abort_on_error=0", FUZZ_QUIET="1")

    found = [0]

    def msan_batch(batch):
        if found[0] >= 20:  # enough witnesses: on a tree where most inputs fail, bisecting every batch would take hours
            return []
        try:
            # the replay binary arms a 10 s alarm per file (harness/fuzz_target.c), so a hanging input kills it with SIGALRM
            r = subprocess.run([ms] + batch, capture_output=True, env=menv, text=True, errors="replace", timeout=max(180, 60 + 0.1 * len(batch)))
        except subprocess.TimeoutExpired:
            r = subprocess.CompletedProcess([], -999, "", "msan replay batch timed out")
        if r.returncode == 0:
            return []
        # bisect to single files
        if len(batch) == 1:
            found[0] += 1
            return [(batch[0], r.returncode, r.stderr)]
        mid = len(batch) // 2
        return msan_batch(batch[:mid]) + msan_batch(batch[mid:])

    # FUZZ_QUIET redirects fd 2, so sanitizer output is requested via log_path
    menv["MSAN_OPTIONS"] += ":log_path=" + os.path.join(wd, "msanlog")
    batches = [files[i::njobs] for i in range(njobs)]
    with ThreadPoolExecutor(max_workers=njobs) as ex:
        mres = [x for lst in ex.map(msan_batch, [b for b in batches if b]) for x in lst]
    stats["msan_inputs_replayed"] = len(files)
    v.count(len(files))
    for path, rc, err in mres:
        logs = sorted(glob.glob(os.path.join(wd, "msanlog.*")), key=os.path.getmtime)
        rep = open(logs[-1], errors="replace").read() if logs else err
        sig = common.san_summary(rep) or ("msan-replay-exit=%d" % rc)
        data = open(path, "rb").read()
        v.violation({"key": "%s %s" % (sig, os.path.basename(path)), "fam": "msan", "control_bytes": data[:8].hex(), "text": data[8:200].decode("latin-1")}, sig, rep[-2500:])
    v.distinct(("fuzz-executions", execs))
    v.cov["distinct_nontrivial"] = len(v._distinct) + cov
    v.cov["rule"] = ("(a) libFuzzer (clang, ASan+UBSan, reports fatal) on a structure-aware target: 8 control bytes choose option values (incl. out-of-range), entry point (str, str+fitting, counting, file, file-counting, "
                     "two calls), chunk size, caller/library buffer, buffer length and start offset, the rest is the NUL-terminated text; dictionary of all mnemonics/registers/keywords/punctuation, seeds = the C01-C05 "
                     "corpora; %d jobs x %d runs; (b) directed sweeps: filtered line lengths 90-110 x 12 line shapes x 13 last-token kinds, 0-8 operands, every keyword pair, every byte value at every position of 6 templates, "
                     "1 MiB lines, 10^5-line programs (one sweep case in seven with debug printing on; the fuzz target switches it on for a quarter of its inputs), operands made of up to 24 register terms / 30 numbers / chains of '*', signs, keywords and brackets, valid and rejected lines with runs of 1000 .. 2^20 blanks / tabs at 17 positions (short after filtering, long as written), on caller and library buffers in plain/fitting/counting mode; the longest encodings the library emits (ALU/test/mov x 7 memory shapes x size keywords x immediates of 1-8 bytes, incl. ones the destination cannot hold: up to 17 bytes) x chunk sizes around their length x fill levels of the chunk, fitting and counting; programs whose last instructions sweep through the growth thresholds of the library buffer (6000, 12000, ...) under chunk sizes that do / do not divide 6000, with every growth forced to move the mapping; write positions up to INT_MAX on library buffers (grow that far or fail cleanly); (c) seeds + fuzzer corpus + sweeps replayed under MemorySanitizer. Oracle: no sanitizer report, no signal, "
                     "no hang (10 s watchdog), return value in {0,1}. distinct_nontrivial = distinct directed cases + coverage edges reached by the fuzzer" % (njobs, per))
    v.cov["exhaustive"] = False
    v.cov.update(stats)
    v.assumptions += ["exploration, not exhaustion: no claim beyond the inputs executed"]
    return v.finish(None, execs >= 0.9 * per * njobs and cov > 500 and stats["sweep_calls"] > 3000, "fuzzer did too little: %r" % stats)
