"""C02 - memory operands encode exactly the written effective address."""
from .. import common, isa, enc


def sensitive(c):
    return c["index"] in ("rsp", "esp") or (c["index"] and not c["base"])


def run(tier):
    v = common.Verdict("C02", tier)
    binary = common.build("asan")
    rnd = common.rng("c02")
    full = tier == "thorough"
    cases = isa.gen_mem(full, rnd, per_class=None if full else 4000)
    # far jmp / call through memory (m16:16, m16:32, m16:64) are memory-operand forms as well: the same base x index x scale x
    # displacement shapes, with their own size keywords (C05 judges the branch side of them)
    cases += isa.gen_far(rnd, full)
    # documented STRICT exception: [base+rsp] under swap=STRICT is encoded literally (index field = none)
    strict_cases = []
    for c in cases:
        if c["index"] in ("rsp", "esp"):
            s = dict(c)
            ops = []
            s["exp"] = tuple(("m", o[1], o[2], tuple(x for x in o[3] if x[0] != c["index"]), o[4]) if (isinstance(o, tuple) and o[0] == "m") else o for o in c["exp"])
            s["strict_literal"] = True
            s["noref"] = True
            strict_cases.append(s)

    def combos_for(c):
        if c.get("strict_literal"):
            return ["20" + n for n in "01"]
        if c["index"] in ("rsp", "esp"):
            return ["21" + n for n in "01"]
        if sensitive(c):
            return ["2" + s + n for s in "01" for n in "01"]
        return [enc.DEFAULT]

    st = enc.run(v, cases + strict_cases, binary, combos_for)
    # ---- execution monitor: let the CPU compute the effective address. For lea shapes the program loads known constants
    # into the address registers, executes the lea the library assembled and returns the result; the expected value is
    # (B + I*s + d) mod 2^address-size, truncated / zero-extended to the destination width. This checks the decoders'
    # reading of ModRM/SIB/disp against the hardware.
    from ..canon import R64, R32, regnum, REGW
    plain = common.build("plain")
    leas = [c for c in cases if c["form"] == "lea" and REGW[c["mreg"]] in (32, 64) and c["base"] != "esp" and c["index"] not in ("rsp", "esp")
            and c["mreg"] not in ("rsp", "esp")  # the destination must not be the stack pointer of the program that runs it
            and not (c["base"] == "rsp" and (c["asz"] != 64 or REGW[c["mreg"]] != 64))]
    if len(leas) > (4000 if not full else 60000):
        leas = rnd.sample(leas, 4000 if not full else 60000)
    ex, exmeta = [], []
    for c in leas:
        asz, dw = c["asz"], REGW[c["mreg"]]
        par = lambda r: R64[regnum(r)]
        vals = {}
        for r in (c["base"], c["index"]):
            if r and r not in ("rsp",) and par(r) not in vals:
                vals[par(r)] = rnd.getrandbits(64) | (1 << 63) | (1 << 31)
        prog = ["mov %s, 0x%x" % (r, k) for r, k in vals.items()]
        prog.append(c["text"])
        d64 = par(c["mreg"])
        if d64 != "rax":
            prog.append("mov rax, %s" % d64)
        m = (1 << asz) - 1
        ea = (c["disp"] or 0)
        if c["base"] and c["base"] != "rsp":
            ea += vals[par(c["base"])] & m
        if c["index"]:
            ea += (vals[par(c["index"])] & m) * (c["scale"] or 1)
        ea &= m
        if c["base"] == "rsp":
            prog.append("sub rax, rsp")
            want = ea & (2**64 - 1)
        else:
            want = ea & ((1 << dw) - 1)
        prog.append("ret")
        masks = ["2" + sw + nb for sw in "01" for nb in "01"] if sensitive(c) else [enc.DEFAULT]
        for mk in masks:
            ex.append(["new 0 int", "opt 0 mask %s" % mk, "asm 0 %s" % common.hx("\n".join(prog)), "exec 0"])
            exmeta.append((c, mk, want, prog))
    exres = common.run_cases(plain, ex, tag="c02x")
    exec_ok = 0
    for (c, mk, want, prog), cmds, r in zip(exmeta, ex, exres):
        v.count()
        cc = {k: x for k, x in c.items() if k not in ("exp", "alt")}
        cc.update({"key": "exec %s [%s]" % (c["text"], mk), "combo": mk, "fam": "lea_exec", "script": cmds})
        if r["crash"]:
            v.violation(cc, r["crash"]["sig"], r["crash"]["stderr"][-600:])
            continue
        a, e = r["records"][2].split(), r["records"][3].split()
        if a[1] != "0":
            v.violation(cc, "exec:rejected", r["records"][2])
        elif e[:2] != ["V", "ok"] or int(e[2], 16) != want:
            v.violation(cc, "exec:wrong-effective-address", "program %s -> %s, expected 0x%x" % ("; ".join(prog), " ".join(e), want))
        else:
            exec_ok += 1
            v.distinct(("exec", c["text"], mk))
    st["lea_executions"] = len(ex)
    st["lea_executions_ok"] = exec_ok
    v.cov["rule"] = ("address shapes (base in none/16 r64/16 r32) x index classes x scale absent/1/2/4/8 in both factor orders x displacement boundaries "
                     "(hex and decimal) x %d instruction classes taking a memory operand; mode-sensitive shapes (stack-pointer index, no-base scaled index) under "
                     "all swap x no-base modes with the documented STRICT literal encoding as explicit expectation; judged on decoded base/index/scale as a linear "
                     "form, sign-extended displacement, address size and access width; distinct = (text, bytes) read back as expected by both decoders; plus JIT execution of lea over sampled shapes with known register values: the CPU's effective address must equal base+index*scale+disp" % len(set(c["form"] for c in cases)))
    v.cov["exhaustive"] = False
    v.cov["classes"] = sorted(set(c["form"] for c in cases))
    v.assumptions += ["LLVM-MC and libopcodes decode correctly where nasm's encoding of the same line validates them",
                      "the STRICT stack-pointer-index literal encoding has no nasm spelling; its expectation (index dropped) is taken from the header's documented example"]
    floor = st["held"] > 1000 and st["reference_validated_cases"] >= 0.995 * st["cases"]
    return v.finish(st, floor, "too few judged cases or reference side not validated: %r" % st)
