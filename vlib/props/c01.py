"""C01 - integer register forms encode exactly the instruction written."""
from .. import common, isa, enc


def run(tier):
    v = common.Verdict("C01", tier)
    binary = common.build("asan")
    rnd = common.rng("c01")
    cases = isa.gen_int_regs()
    # BMI2/ADX register forms are decided exhaustively by C04; C01 keeps a corner sample
    cases += isa.gen_bmi_regs(corners_only=True, rnd=rnd, frac=0.0)
    frac = 1.0 if tier == "thorough" else 0.1

    def combos_for(c):
        if frac >= 1.0:
            return enc.COMBOS
        return [enc.DEFAULT] + [m for m in enc.COMBOS if m != enc.DEFAULT and rnd.random() < frac]

    st = enc.run(v, cases, binary, combos_for)
    v.cov["rule"] = ("every register-only general-purpose form of the committed spec (vlib/isa.py) x every register tuple of every legal width; "
                     "default options for all, the other 11 option combinations for %s of the lines; a case is non-trivial/distinct when the "
                     "library accepted it and both decoders read the emitted bytes back as the expected tuple (distinct = (text, bytes))" % ("all" if frac >= 1 else "a seeded 10%"))
    v.cov["exhaustive"] = frac >= 1.0
    v.assumptions += ["LLVM-MC and libopcodes decode correctly where nasm's encoding of the same line validates them",
                      "semantics of the CPU executing the bytes are not re-checked"]
    floor = st["held"] > 1000 and st["reference_validated_cases"] >= 0.999 * st["cases"]
    return v.finish(st, floor, "too few judged cases or reference side not validated: %r" % st)
