NOT_YET = {}
CLAIMS = {
 "C01": {"technique": "runtime round-trip monitor: ASan+UBSan build driven over the exhaustive register-tuple space, bytes judged by two independent decoders against a nasm-validated expectation",
         "text": "Every register-only integer form of the committed spec x every register tuple x option combos is assembled by the real library under ASan+UBSan; each emitted encoding is decoded by LLVM-MC and libopcodes and must read back as the written instruction with length == offset advance. Exhaustive over that finite space in the thorough tier (quick: all tuples under default options + sampled combos). Exploration level: nothing is proved beyond the executed cases.",
         "note": "Trusts LLVM-MC/libopcodes where nasm's own encoding of the same line validates them (per case); CPU semantics not re-checked."},
 "C02": {"technique": "runtime round-trip monitor over address-shape x instruction-class product (ASan+UBSan build; two decoders; linear-form address comparison; nasm referee)",
         "text": "Memory operands built structurally (base/index/scale/order/displacement/keyword) for ~60 instruction classes are assembled by the real library under ASan+UBSan in the relevant SIB modes; the ModRM/SIB/displacement bytes must decode (LLVM-MC and libopcodes) to the written base+index*scale as a linear form, sign-extended displacement, address size and access width. Stratified sample in quick, full shape product for the structural classes in thorough. Exploration level.",
         "note": "Trusts the two decoders where nasm's encoding of the same line validates them; the STRICT stack-pointer-index expectation comes from the header's documented example."},
 "C04": {"technique": "runtime round-trip monitor, exhaustive over vector/VEX register tuples (ASan+UBSan build; two decoders; nasm referee)",
         "text": "Every MMX/SSE/AVX/AVX2/BMI2/ADX register-only form of the committed spec x the complete register product (thorough; corners + 5% in quick) is assembled by the real library and must decode back with the same operation, registers, operand size (VEX.W) and vector length (VEX.L). Exhaustive over that finite space in thorough. Memory variants are C02's.",
         "note": "Trusts LLVM-MC/libopcodes where nasm validates them per case."},
}
