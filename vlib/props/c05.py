"""C05 - relative jumps and calls encode the given displacement; rel8 never wraps."""
from .. import common, isa, enc, oracle, canon


def run(tier):
    v = common.Verdict("C05", tier)
    full = tier == "thorough"
    rnd = common.rng("c05")
    binary = common.build("asan")
    cases = isa.gen_branch(rnd, 64 if not full else 3000, full)
    ok = enc.validate_reference(cases, v)
    items = [(enc.DEFAULT if i % 7 else rnd.choice(enc.COMBOS), c["text"], 0) for i, c in enumerate(cases)]
    res = common.run_lines(binary, items, tag="c05")
    oracle.decode_many([r["bytes"] for r in res if "bytes" in r and r.get("rc") == 0])
    st = {"accepted": 0, "rejected": 0, "rel8": 0, "rel32": 0, "must_reject_checked": 0, "silent_model": 0}
    relacc = []
    rejected = []
    for c, (m, _, _), r, refok in zip(cases, items, res, ok):
        v.count()
        cc = dict(c)
        cc["combo"] = m
        cc["key"] = "%s [%s]" % (c["text"], m)
        cc["exp"] = repr(c["exp"])
        if "crash" in r:
            v.violation(cc, r["crash"]["sig"], r["crash"]["stderr"][-1200:])
            continue
        model = set(c["model"]) if c["model"] is not None else None
        if model is None:
            st["silent_model"] += 1
        if r["rc"] != 0:
            st["rejected"] += 1
            if model is not None and "reject" not in model:
                if refok:
                    v.violation(cc, "rejected", None)
            else:
                if model == {"reject"}:
                    st["must_reject_checked"] += 1
                    v.distinct(("rej", c["text"]))
                    rejected.append((c, m, c["text"]))
                if r["lo"] != -1:
                    v.violation(cc, "rejected-but-wrote-bytes", r["bytes"])
            continue
        st["accepted"] += 1
        cc["got_bytes"] = r["bytes"]
        n = len(r["bytes"]) // 2
        if r["off"] != n or n == 0:
            v.violation(cc, "offset-advance!=bytes", "off=%d n=%d" % (r["off"], n))
            continue
        s, c1, c2, info = oracle.canon_bytes(r["bytes"])
        if model == {"reject"}:
            # accepted although only rejection is allowed: show what it wrapped to
            v.violation(cc, "accepted-should-reject", info)
            continue
        if s != "ok":
            v.violation(cc, enc.decode_symptom(r["bytes"]), info)
            continue
        e = c["exp"]
        if c1 != e or c2 != e:
            s1, s2 = canon.diff_sig(e, c1), canon.diff_sig(e, c2)
            v.violation(cc, s1 if s1 == s2 else s1 + " | " + s2, info)
            continue
        form = "rel8" if n == 2 else "rel32"
        st[form] += 1
        if model is not None and form not in model:
            v.violation(cc, "form:%s-not-allowed" % form, info)
            continue
        v.distinct((c["text"], r["bytes"]))
        relacc.append((c, m, r["bytes"]))
        if st["accepted"] % 4000 == 1:
            v.sample({"text": c["text"], "opts": m, "bytes": r["bytes"], "decoded": info, "form": form})
    # the relative forms in chunk-fitting (padded, encoded twice) and counting mode: the displacement is a literal, not a target, so the
    # bytes must be exactly those of plain assembly wherever the branch ends up
    st["rel_mode_crossing_checks_ok"] = enc.mode_crossing(v, binary, relacc)
    st["rejected_resubmitted_ok"] = enc.retry_rejected(v, binary, rejected if full else rnd.sample(rejected, min(len(rejected), 1500)))
    # indirect forms: registers here; memory and far-memory targets over the C02 address shapes
    ind = isa.gen_branch_indirect()
    mem = isa.gen_mem(full, rnd, classes={"jmp_m", "call_m"}, per_class=None if full else 3000)
    far = isa.gen_far(rnd)
    st2 = enc.run(v, ind + mem + far, binary)
    st.update({"indirect_" + k: x for k, x in st2.items()})
    # ---- execution monitor: the CPU itself must land where the written displacement says.
    # layout:  xor eax,eax ; <branch d> ; d bytes of 'ret' (c3) ; mov rax, K ; ret        (forward, d >= 0)
    #          xor eax,eax ; jmp over ; T: mov rax, K ; ret ; over: <branch -(len(T block)+len(branch))>   (backward)
    # after 'xor eax,eax': ZF=1 PF=1 SF=0 CF=0 OF=0, so these conditional jumps are taken:
    taken = {"je", "jae", "jbe", "jge", "jle", "jns", "jno", "jp", "jmp"}  # ZF=1: jbe (CF or ZF) is taken
    not_taken = {"jne", "ja", "jb", "jg", "jl", "js", "jo", "jnp"}
    plain = common.build("plain")
    ex, exmeta = [], []
    K = 0x1122334455667788
    for mn in sorted(taken | not_taken):
        for kw in (None, "short", "long"):
            dsel = [0, 1, 2, 5, 64, 126, 127] + ([128, 129, 300, 1000] if kw != "short" else [])
            for d in dsel:
                prog = ["xor eax, eax", "%s %s%d" % (mn, (kw + " ") if kw else "", d)] + ["ret"] * d + ["mov rax, 0x%x" % K, "ret"]
                ex.append(["new 0 int", "asm 0 %s" % common.hx("\n".join(prog)), "exec 0"])
                exmeta.append((mn, kw, d, K if mn in taken or d == 0 else 0))
            # backward: target block is 'mov rax,K' (10 bytes) + 'ret' (1) = 11 bytes, then the branch itself (2 or 5/6 bytes)
            # the branch's own length decides the displacement: measure it (keyword-less backward branches may be rel8 or rel32)
            probe = common.run_lines(binary, [(enc.DEFAULT, "%s %s-20" % (mn, (kw + " ") if kw else ""), 0)], tag="c05l", nproc=1)[0]
            if "crash" in probe or probe["rc"] != 0:
                continue
            for blen in (len(probe["bytes"]) // 2,):
                back = -(11 + blen)
                prog = ["xor eax, eax", "jmp 11", "mov rax, 0x%x" % K, "ret", "%s %s%d" % (mn, (kw + " ") if kw else "", back), "ret"]
                ex.append(["new 0 int", "asm 0 %s" % common.hx("\n".join(prog)), "exec 0"])
                exmeta.append((mn, kw, back, K if mn in taken else 0))
    for d in (0, 1, 100, 127, 128, 4000):
        prog = ["xor eax, eax", "call %d" % d] + ["ret"] * d + ["pop rcx", "mov rax, 0x%x" % K, "ret"]
        ex.append(["new 0 int", "asm 0 %s" % common.hx("\n".join(prog)), "exec 0"])
        exmeta.append(("call", None, d, K))
    exres = common.run_cases(plain, ex, tag="c05x")
    st["executions"] = len(ex)
    st["executions_ok"] = 0
    for (mn, kw, d, want), cmds, r in zip(exmeta, ex, exres):
        v.count()
        case = {"key": "exec %s %s %d" % (mn, kw, d), "fam": "branch_exec", "mn": mn, "kw": kw, "d": d, "script": cmds}
        if r["crash"]:
            v.violation(case, r["crash"]["sig"], r["crash"]["stderr"][-600:])
            continue
        a = r["records"][1].split()
        e = r["records"][2].split()
        if a[1] != "0":
            if kw == "short" and not (-128 <= d <= 127):
                continue
            if kw == "short":
                continue  # the statement is silent on accepting 'short' with an in-range displacement
            v.violation(case, "exec:rejected", r["records"][1])
        elif e[:2] != ["V", "ok"] or int(e[2], 16) != want:
            v.violation(case, "exec:lands-elsewhere", "got %s want 0x%x" % (" ".join(e), want))
        else:
            st["executions_ok"] += 1
            v.distinct(("exec", mn, kw, d))
    v.cov["rule"] = ("{jmp, call, jrcxz, xbegin, 15 jcc spellings} x {no keyword, short, long} x d in -129..128 (all), around +/-2^15, +/-2^31 and seeded random, decimal and hex; "
                     "an accepted line must decode (two decoders) to the same branch with rel == d and a form the model allows; lines the property requires to be rejected must return EXIT_FAILURE "
                     "and leave the buffer untouched; the model is silent where the statement is; indirect targets: all r64, memory targets over address shapes (C02 machinery), far word/dword/qword; plus JIT execution of forward/backward jmp/jcc/call programs that return a constant only if the branch lands exactly where the displacement says")
    v.cov["exhaustive"] = False
    v.cov["model"] = "vlib/isa.py branch_model"
    floor = st["accepted"] > 1000 and st["must_reject_checked"] >= 0 and st["indirect_reference_validated_cases"] >= 0.995 * st["indirect_cases"]
    return v.finish(st, floor, "too few accepted branch lines, or the reference side of the indirect forms not validated: %r" % st)
