"""Execution oracle for register-only integer forms: small Python models of what the CPU must compute.
A case is run as   mov <parents>, constants ; [flag setup] ; <the line under test> ; mov rax, <dest parent> ; ret
and the returned rax is compared with model(...). Flags before the line: ZF=1 PF=1 SF=0 CF=0 OF=0 (after 'xor s, s')."""
from .canon import R64, R32, R16, R8, R8H, REGW, regnum, CC

M64 = (1 << 64) - 1
FLAGS0 = {"zf": 1, "pf": 1, "sf": 0, "cf": 0, "of": 0}
COND = {
    "o": lambda f: f["of"], "no": lambda f: not f["of"], "b": lambda f: f["cf"], "ae": lambda f: not f["cf"],
    "e": lambda f: f["zf"], "ne": lambda f: not f["zf"], "be": lambda f: f["cf"] or f["zf"], "a": lambda f: not (f["cf"] or f["zf"]),
    "s": lambda f: f["sf"], "ns": lambda f: not f["sf"], "p": lambda f: f["pf"], "np": lambda f: not f["pf"],
    "l": lambda f: f["sf"] != f["of"], "ge": lambda f: f["sf"] == f["of"], "le": lambda f: f["zf"] or f["sf"] != f["of"],
    "g": lambda f: (not f["zf"]) and f["sf"] == f["of"],
}


def parent(r):
    if r in R8H:
        return R64[R8H.index(r)]
    return R64[regnum(r)]


def read(regs, r):
    if isinstance(r, int):
        return r  # an immediate: masked by the consumer / by write()
    v = regs[parent(r)]
    if r in R8H:
        return (v >> 8) & 0xff
    return v & ((1 << REGW[r]) - 1)


def write(regs, r, val):
    p = parent(r)
    w = REGW[r]
    val &= (1 << w) - 1
    if r in R8H:
        regs[p] = (regs[p] & ~0xff00 & M64) | (val << 8)
    elif w == 64:
        regs[p] = val
    elif w == 32:
        regs[p] = val
    else:
        regs[p] = (regs[p] & ~((1 << w) - 1) & M64) | val


def sx(v, w):
    v &= (1 << w) - 1
    return v - (1 << w) if v >> (w - 1) else v


def model(mn, ops, regs):
    """apply the instruction to the register file dict (parent name -> 64-bit value). Returns False if not modelled."""
    if mn.startswith("cmov"):
        cc = CC[mn[4:]]
        d, s = ops
        w = REGW[d]
        write(regs, d, read(regs, s) if COND[cc](FLAGS0) else read(regs, d))
        return True
    if mn.startswith("set"):
        cc = CC[mn[3:]]
        write(regs, ops[0], 1 if COND[cc](FLAGS0) else 0)
        return True
    if mn in ("add", "adc", "adcx", "adox"):
        d, s = ops
        write(regs, d, read(regs, d) + read(regs, s))
    elif mn in ("sub", "sbb"):
        d, s = ops
        write(regs, d, read(regs, d) - read(regs, s))
    elif mn == "and":
        write(regs, ops[0], read(regs, ops[0]) & read(regs, ops[1]))
    elif mn == "or":
        write(regs, ops[0], read(regs, ops[0]) | read(regs, ops[1]))
    elif mn == "xor":
        write(regs, ops[0], read(regs, ops[0]) ^ read(regs, ops[1]))
    elif mn in ("cmp", "test"):
        pass
    elif mn == "mov":
        write(regs, ops[0], read(regs, ops[1]))
    elif mn == "movzx":
        write(regs, ops[0], read(regs, ops[1]))
    elif mn == "xchg":
        a, b = read(regs, ops[0]), read(regs, ops[1])
        write(regs, ops[0], b)
        write(regs, ops[1], a)
    elif mn == "imul" and len(ops) == 2:
        w = REGW[ops[0]]
        write(regs, ops[0], sx(read(regs, ops[0]), w) * sx(read(regs, ops[1]), w))
    elif mn == "inc":
        write(regs, ops[0], read(regs, ops[0]) + 1)
    elif mn == "dec":
        write(regs, ops[0], read(regs, ops[0]) - 1)
    elif mn == "neg":
        write(regs, ops[0], -read(regs, ops[0]))
    elif mn == "not":
        write(regs, ops[0], ~read(regs, ops[0]))
    elif mn in ("shl", "sal", "shr", "sar") and len(ops) == 2 and ops[1] == "cl":
        w = REGW[ops[0]]
        cnt = read(regs, "cl") & (63 if w == 64 else 31)
        v = read(regs, ops[0])
        if mn in ("shl", "sal"):
            r = v << cnt
        elif mn == "shr":
            r = v >> cnt
        else:
            r = sx(v, w) >> cnt
        write(regs, ops[0], r)
    elif mn in ("sarx", "shlx", "shrx"):
        d, s, c = ops
        w = REGW[d]
        cnt = read(regs, c) & (w - 1)
        v = read(regs, s)
        write(regs, d, v << cnt if mn == "shlx" else (v >> cnt if mn == "shrx" else sx(v, w) >> cnt))
    elif mn == "bextr":
        d, s, c = ops
        w = REGW[d]
        ctrl = read(regs, c)
        start, ln = ctrl & 0xff, (ctrl >> 8) & 0xff
        v = read(regs, s)
        r = (v >> start) if start < w else 0
        r &= (1 << ln) - 1 if ln < w else (1 << w) - 1
        write(regs, d, r)
    elif mn == "bzhi":
        d, s, c = ops
        w = REGW[d]
        n = read(regs, c) & 0xff
        v = read(regs, s)
        write(regs, d, v & ((1 << n) - 1) if n < w else v)
    elif mn == "rorx":
        d, s, imm = ops
        w = REGW[d]
        k = imm & (w - 1)
        v = read(regs, s)
        write(regs, d, ((v >> k) | (v << (w - k))) if k else v)
    elif mn in ("shl", "sal", "shr", "sar", "ror", "rcr") and len(ops) == 2 and isinstance(ops[1], int):
        w = REGW[ops[0]]
        cnt = ops[1] & (63 if w == 64 else 31)
        v = read(regs, ops[0])
        if mn in ("shl", "sal"):
            r = v << cnt
        elif mn == "shr":
            r = v >> cnt
        elif mn == "sar":
            r = sx(v, w) >> cnt
        elif mn == "ror":
            k = cnt % w
            r = ((v >> k) | (v << (w - k))) if k else v
        else:  # rcr with CF = 0 before: rotate the (w+1)-bit quantity CF:value
            k = cnt % (w + 1)
            t = v  # CF (0) is bit w
            r = ((t >> k) | (t << (w + 1 - k))) & ((1 << (w + 1)) - 1) if k else t
        write(regs, ops[0], r)
    elif mn == "imul" and len(ops) == 3:
        w = REGW[ops[0]]
        write(regs, ops[0], sx(read(regs, ops[1]), w) * sx(ops[2], w))
    elif mn in ("shld", "shrd") and len(ops) == 3 and isinstance(ops[2], int):
        d, s_, c = ops
        w = REGW[d]
        cnt = c & (63 if w == 64 else 31)
        if cnt >= w:
            return False  # architecturally undefined
        a, b = read(regs, d), read(regs, s_)
        # count 0 leaves the value unchanged, but a 32-bit destination is still written (zero-extended): observed on hardware
        write(regs, d, a if not cnt else (((a << cnt) | (b >> (w - cnt))) if mn == "shld" else ((a >> cnt) | (b << (w - cnt)))))
    else:
        return False
    return True


def program(case, rnd):
    """returns (program lines, expected rax) or None if the case cannot be run (stack pointer involved, not modelled)."""
    mn = case["mn"]
    regs_used = list(case["regs"])
    if not regs_used:
        return None
    if any(parent(r) == "rsp" for r in regs_used):
        return None
    imm = case.get("imm") if (mn == "rorx" or case["fam"].startswith("imm_")) else None
    ops = regs_used + ([imm] if imm is not None else [])
    pars = []
    for r in regs_used:
        if parent(r) not in pars:
            pars.append(parent(r))
    regs = {}
    prog = []
    for p in pars:
        k = rnd.getrandbits(64)
        if rnd.random() < 0.3:
            k |= (1 << 63) | (1 << 31) | (1 << 15) | (1 << 7)
        if p == "rcx" and mn in ("shl", "sal", "shr", "sar", "sarx", "shlx", "shrx"):
            k = (k & ~0xff) | rnd.choice([0, 1, 5, 31, 32, 63, 64, 200])
        regs[p] = k
        prog.append("mov %s, 0x%x" % (p, k))
    # flags: xor of a scratch register that is not an operand
    scratch = [r for r in ("r11", "r10", "rsi", "rdi", "rdx") if r not in pars][0]
    prog.append("xor %s, %s" % (scratch, scratch))
    if mn in ("adc", "sbb", "adcx", "adox"):
        prog.append("clc")
    dest = regs_used[0]
    if not model(mn, ops, regs):
        return None
    prog.append(case["text"])
    if parent(dest) != "rax":
        prog.append("mov rax, %s" % parent(dest))
    prog.append("ret")
    return prog, regs[parent(dest)] & M64
