#!/usr/bin/env python3
"""Runs the repository's own test suite (guard OFF: plain autotools build) and
compares the passing test names with /root/.vp/BASELINE.json stable_pass.
`make check` itself exits non-zero on the pinned tree (TAP sub-results listed
under always_fail), so results are read per test from the automake .trs files."""
import os, glob, json, os, re, subprocess, sys
repo = os.environ.get("VERIF_REPO", "/repo")
for p in glob.glob(os.path.join(repo, "test", "**", "*.trs"), recursive=True):
    os.unlink(p)
r = subprocess.run(["make", "-C", repo, "check", "-j8"], capture_output=True, text=True)
subprocess.run(["sh", os.path.join(os.path.dirname(os.path.abspath(__file__)), "fixdev.sh")])  # the suite (nasm as root) can replace /dev/stdout by a regular file
ok, bad = set(), set()
for p in glob.glob(os.path.join(repo, "test", "**", "*.trs"), recursive=True):
    name = os.path.relpath(p, repo)[:-4]
    res = re.findall(r"^:test-result: (\S+)", open(p).read(), re.M)
    if res and all(x in ("PASS", "XFAIL") for x in res):
        ok.add(name)
    else:
        bad.add(name)
base = json.load(open("/root/.vp/BASELINE.json"))
want = set(base["stable_pass"])
strip = lambda n: re.sub(r"\.(asm|sh|tap|eaf)$", "", n)
missing = sorted(n for n in want if strip(n) not in ok and n not in ok)
print("baseline: %d/%d stable tests pass (%d result files)" % (len(want) - len(missing), len(want), len(ok) + len(bad)))
if missing:
    print("NOT PASSING:", " ".join(missing))
    sys.exit(1)
