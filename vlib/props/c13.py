"""C13 - chunk fitting pads with NOPs so that no instruction straddles a chunk boundary."""
from .. import common, chunks, oracle

PREFIX_LINE = "clc"  # 1-byte instruction that is not a NOP, used to bring the cursor to a position


def judge(v, case, lens, hexes, c, start, recs_asm, off, dump, stats):
    """compare the dumped bytes [start, off) with the layout model"""
    layout, end = chunks.model_layout(c, start, lens) if c >= 2 else ([(0, None)] * len(lens), start + sum(lens))
    if recs_asm != "0":
        return "fitting-call-rejected", None
    pos = 0
    total = len(dump) // 2
    for i, ((pad, _), L, h) in enumerate(zip(layout, lens, hexes)):
        # measure the actual pad: bytes before the instruction bytes appear where the model says
        got_pad = dump[2 * pos:2 * (pos + pad)]
        if pad:
            ok, n = chunks.is_nop_sequence(got_pad)
            if not ok:
                # classify: did the library not pad at all?
                if dump[2 * pos:2 * (pos + L)] == h:
                    return "missing-pad(straddles)", "instr %d at %d len %d c=%d" % (i, start + pos, L, c)
                return "pad-not-nops", "instr %d pad %d bytes: %s" % (i, pad, got_pad[:60])
            stats["pads"] += 1
            stats["pad_bytes"] += pad
            stats["max_pad"] = max(stats["max_pad"], pad)
        pos += pad
        if dump[2 * pos:2 * (pos + L)] != h:
            # spurious pad?
            return ("unexpected-bytes(spurious-pad?)" if not pad else "instruction-bytes-differ-after-pad"), "instr %d at rel %d: got %s want %s" % (i, pos, dump[2 * pos:2 * (pos + L)], h)
        pos += L
    if pos != total or off != start + total:
        return "length/offset-mismatch", "model end %d dumped %d off %d" % (start + pos, total, off)
    return None, None


def run(tier):
    v = common.Verdict("C13", tier)
    full = tier == "thorough"
    rnd = common.rng("c13")
    binary = common.build("asan")
    cat = chunks.length_catalogue(binary, rnd, 2 if not full else 3)
    cs = list(range(2, 21)) + [32, 64] if not full else list(range(2, 41)) + [64, 100, 4096]
    cases, meta = [], []

    def add(c, start, prog_lines, prog_hex, pre_cmds=(), tag="grid", mid_cmds=(), internal=False):
        lens = [len(h) // 2 for h in prog_hex]
        total_max = sum(lens) + len(lens) * 16 + 64  # a pad is always shorter than the instruction it precedes
        # caller buffers at EVERY alignment of their address: a heap block (16-byte aligned), or a buffer that ends at a page end and
        # therefore starts at (page end - length) - chunks are counted from the buffer start, whatever its address is
        n_ext = start + total_max + 32 + (len(cases) % 61)
        cmds = ["new 0 int" if internal else "new 0 ext %d %s 0xcc" % (n_ext, "H" if len(cases) % 3 else "R")] + list(pre_cmds) + ["chunk 0 %d" % c] + list(mid_cmds) + ["setoff 0 %d" % start,
                "asm 0 %s" % common.hx("\n".join(prog_lines)), "getoff 0", "dump 0 %d %d" % (start, start + total_max)]
        cases.append(cmds)
        meta.append((c, start, prog_lines, prog_hex, lens, tag, len(pre_cmds) + len(mid_cmds)))

    clc = "f8"
    for c in cs:
        qs = range(c) if c <= 100 else [0, 1, 2] + list(range(c - 16, c))
        for L, lst in cat.items():
            for (line, h) in lst:
                for q in qs:
                    # prefix of q one-byte instructions brings the cursor to q, then the L-byte instruction, then one more
                    add(c, 0, [PREFIX_LINE] * q + [line, "ret"], [clc] * q + [h, "c3"])
    # start offsets != 0 and fitting switched on/off/resized between calls, random programs
    allc = [(l, h) for lst in cat.values() for (l, h) in lst]
    if len(allc) < 10:
        v.violation({"key": "length catalogue", "fam": "precondition"}, "precondition:valid-lines-rejected", "only %d catalogue lines are accepted by plain assembly" % len(allc))
        return v.finish()
    nrand = 1500 if not full else 100000
    for k in range(nrand):
        c = rnd.choice(cs[:-1] if full else cs) if k % 5 else rnd.choice([128, 255, 256, 1000, 1024, 2048, 32768, 65536])
        start = rnd.choice([0, 1, c - 1, c, c + 1, 7, 19, 100]) if k % 7 else rnd.choice([65535 - 3, 65536, 70001, 131071, 2 * c - 2])
        prog = [rnd.choice(allc) for _ in range(rnd.randrange(1, 40))]
        pre = []
        if k % 3 == 1:
            pre = ["chunk 0 %d" % rnd.choice(cs), "chunk 0 0"]  # on, then off again, then the real size
        elif k % 3 == 2:
            pre = ["chunk 0 %d" % rnd.choice(cs)]  # resized
        # a counting call (succeeding or failing, any size) between the setting and the call must not change the setting
        mid = []
        if k % 4 == 3:
            mid = ["cnt 0 %d %s" % (rnd.choice([0, 1, 2, 8, 13, 64]), common.hx("\n".join(["nop", "mov rax, rbx"] + (["bogus rax"] if rnd.random() < 0.3 else []))))]
        add(c, start, [p[0] for p in prog], [p[1] for p in prog], pre, "random", mid)
    # every chunk size 2..130 (not only those of the grid); programs in which nearly EVERY instruction needs a pad (long instructions,
    # chunk sizes little above their length: pad, instruction, pad, instruction ...); user-written NOPs of every length next to pads
    # (padding is what the library inserted - the user's NOPs stay where they are)
    longs = [(l, h) for (l, h) in allc if len(h) // 2 >= 9]
    nops = [(l, h) for (l, h) in allc if l.startswith("nop")]
    for k in range(600 if not full else 40000):
        kind = k % 3
        if kind == 0:
            c = rnd.randrange(2, 131)
            prog = [rnd.choice(allc) for _ in range(rnd.randrange(1, 40))]
        elif kind == 1 and longs:
            c = rnd.randrange(10, 41)
            prog = [rnd.choice(longs) for _ in range(rnd.randrange(2, 30))]
        else:
            c = rnd.choice([8, 12, 16, 17, 20, 24, 32])
            prog = [rnd.choice(nops + longs if nops else allc) if rnd.random() < 0.7 else rnd.choice(allc) for _ in range(rnd.randrange(2, 30))]
        add(c, rnd.choice([0, 1, 5, c - 1, c + 3, 4096 - 2]), [p[0] for p in prog], [p[1] for p in prog], [], "random")
    # positions FAR into a library-managed buffer (2^18 .. 2^31), just before / at a chunk boundary: arithmetic on the position that
    # is exact for small values only shows there
    for c in (2, 3, 7, 8, 16, 17, 64, 100, 130, 255, 256, 1000, 4096, 4097, 32768, 46508, 65535, 65536, 100000):
        for P in (2**16, 2**18, 2**20, 2**22, 2**24, 2**26, 2**28 + 5, 2**30, 2**31 - 200000) if full else (2**18, 2**20, 2**24, 2**26, 2**30, 2**31 - 200000):
            for j in (rnd.randrange(1, 6), 0):
                prog = [rnd.choice(allc) for _ in range(rnd.randrange(2, 9))]
                add(c, (P // c) * c + c - j, [p[0] for p in prog], [p[1] for p in prog], [], "random", internal=True)
    # library-managed buffers (growing during the call) with chunk sizes around and above the mapping size, instructions placed across offset c / 2c
    for k in range(100 if not full else 3000):
        c = rnd.choice([6000, 6019, 6020, 6021, 8192, 12020, 12040, 65536, 100000])
        prog = [rnd.choice(allc) for _ in range(rnd.randrange(1, 12))]
        L0 = len(prog[0][1]) // 2
        start = max(0, rnd.choice([1, 1, 2]) * c - rnd.randrange(0, L0 + 3))
        add(c, start, [p[0] for p in prog], [p[1] for p in prog], [], "random", internal=(k % 4 != 3))
    # chunk sizes that do not fit 32 bits (the parameter is a size_t): no boundary lies inside any buffer, the output is the plain code
    for c in (2**32, 2**32 + 1, 2**32 + 16, 2**32 + 32, 3 * 2**32 + 20, 2**40 + 8, 2**63, 2**64 - 1, 2**31, 2**31 + 8):
        for k in range(6):
            prog = [rnd.choice(allc) for _ in range(rnd.randrange(2, 30))]
            add(c, rnd.choice([0, 3, 31]), [p[0] for p in prog], [p[1] for p in prog], [], "random")
    # chunk sizes below 2 disable fitting: output must be the plain code
    for c in (0, 1):
        for k in range(40):
            prog = [rnd.choice(allc) for _ in range(rnd.randrange(1, 30))]
            mid = ["cnt 0 %d %s" % (rnd.choice([0, 1, 8, 16]), common.hx("nop\nmov rax, rbx"))] if k % 4 >= 2 else []
            add(c, rnd.choice([0, 3]), [p[0] for p in prog], [p[1] for p in prog], ["chunk 0 8"] if k % 2 else [], "disabled", mid)
    # ---- execution monitor: padding must not change what the code computes. Executable programs (register arithmetic on
    # caller-saved registers, multi-byte nops, no memory access) are run plain and fitted; both must return the same value.
    exlines = ["mov rax, 0x1122334455667788", "mov rcx, 0x1000000000000001", "add rax, rcx", "xor rdx, rdx", "lea rdx, [rax+rcx*2+0x10]", "add rax, rdx", "nop7", "nop11",
               "imul rcx, rcx, 3", "sub rax, rcx", "mov r8, 0x7fffffff", "add rax, r8", "rorx r9, rax, 13", "xor rax, r9", "shl rax, 1", "not rax", "movq xmm1, rax", "movq r10, xmm1", "add rax, r10",
               "vpaddb ymm4, ymm2, ymm3", "test rax, rax", "cmovne r11, rax", "mov edx, 5", "nop3", "bextr r9, rax, rcx", "add rax, 0x7f", "sbb rcx, rcx"]
    excases, exmeta = [], []
    nexec = 150 if not full else 3000
    for k in range(nexec):
        # every register and flag the body reads is initialised first (rax holds the code address on entry)
        prologue = ["mov rax, 0x1122334455667788", "mov rcx, 0x0102030405060708", "mov rdx, 0x1111", "mov r8, 0x2222", "mov r9, 0x3333", "mov r10, 0x4444", "mov r11, 0x5555",
                    "movq xmm1, rax", "add rax, rcx"]
        prog = prologue + [rnd.choice(exlines) for _ in range(rnd.randrange(3, 30))] + ["ret"]
        c = rnd.choice([x for x in cs if x <= 100])
        text = common.hx("\n".join(prog))
        excases.append(["new 0 int", "asm 0 %s" % text, "exec 0", "new 1 int", "chunk 1 %d" % c, "asm 1 %s" % text, "exec 1", "getoff 0", "getoff 1"])
        exmeta.append((c, prog))
    plain = common.build("plain")
    exres = common.run_cases(plain, excases, tag="c13x")
    exec_ok = exec_padded = 0
    for (c, prog), cmds, r in zip(exmeta, excases, exres):
        v.count()
        case = {"key": "exec c=%d n=%d %s" % (c, len(prog), prog[:3]), "fam": "fit_exec", "c": c, "script": cmds}
        if r["crash"]:
            v.violation(case, r["crash"]["sig"], r["crash"]["stderr"][-600:])
            continue
        recs = r["records"]
        e0, e1 = recs[2].split(), recs[6].split()
        if recs[1].split()[1] != "0" or recs[5].split()[1] != "0":
            v.violation(case, "exec:program-rejected", " | ".join(recs[1:6]))
        elif e0[:2] != ["V", "ok"]:
            v.violation(case, "exec:plain-code-does-not-run", recs[2])  # the plain assembly of a valid register-only program crashes when executed
        elif e1 != e0:
            v.violation(case, "exec:fitted-code-computes-differently", "plain %s fitted %s" % (" ".join(e0), " ".join(e1)))
        else:
            exec_ok += 1
            exec_padded += int(recs[8].split()[1]) > int(recs[7].split()[1])
            v.distinct(("exec", c, tuple(prog)))
    res = common.run_cases(binary, cases, tag="c13")
    oracle.decode_many([])
    stats = {"executions_equal": exec_ok, "executions_with_padding": exec_padded, "pads": 0, "pad_bytes": 0, "max_pad": 0, "grid_cases": 0, "random_cases": 0, "disabled_cases": 0, "triples_c_q_len": 0}
    seen_triples = set()
    for (c, start, lines, hexes, lens, tag, npre), cmds, r in zip(meta, cases, res):
        v.count()
        stats[tag + "_cases"] += 1
        case = {"key": "%s c=%d start=%d n=%d last=%s" % (tag, c, start, len(lines), lines[-2] if len(lines) > 1 else lines[0]), "fam": "fit_" + tag, "c": c, "start": start,
                "script": cmds if len(cmds) < 12 else cmds[:3]}
        if r["crash"]:
            v.violation(case, r["crash"]["sig"], r["crash"]["stderr"][-800:])
            continue
        recs = r["records"]
        base = 1 + npre + 2
        a = recs[base].split()
        off = int(recs[base + 1].split()[1])
        dump = recs[base + 2].split()[1]
        dump = "" if dump == "-" else dump
        # only [start, off) is code
        dump = dump[:2 * max(0, off - start)]
        sym, detail = judge(v, case, lens, hexes, c, start, a[1], off, dump, stats)
        if sym:
            v.violation(case, sym, detail)
        else:
            v.distinct((c, start, tuple(lines)))
            if tag == "grid":
                seen_triples.add((c, len(lines) - 2, lens[-2]))
            if v.cov["evaluations"] % 900 == 1:
                v.sample({"chunk": c, "start": start, "lines": lines[-3:], "n_lines": len(lines), "bytes_tail": dump[-48:]})
    stats["triples_c_q_len"] = len(seen_triples)
    stats["lengths_in_catalogue"] = sorted(cat)
    v.cov["rule"] = ("grid: chunk sizes %s x every position q in 0..c-1 (prefix of q one-byte non-NOP instructions) x every encoded length in the catalogue (%s bytes; 2+ lines each): "
                     "every (c,q,len) triple incl. gaps > 11 bytes; plus seeded random programs x start offsets x fitting switched on/off/resized before the call, every chunk size 2..130, programs of long instructions under chunk sizes little above their length (pad after pad), user-written NOPs next to pads, positions far into a library buffer (2^18..2^31) just before / at chunk boundaries; c<2 must give the plain code. "
                     "Oracle: layout model (pad exactly where the next instruction shorter than c would cross a c-aligned boundary), pad bytes must decode (two decoders) as NOP instructions "
                     "exactly covering the gap, instruction bytes must equal their plain encoding (stripped == plain); plus JIT execution: seeded executable programs must return the same rax plain and fitted" % ("2..20,32,64" if not full else "2..40,64,100,4096", sorted(cat)))
    v.cov["exhaustive"] = True
    v.cov.update(stats)
    return v.finish(None, stats["pads"] > 100 and stats["max_pad"] >= 12, "too few pads observed: %r" % stats)
