#!/bin/sh
# tools/coverage.sh [checks...] - line coverage of /repo/src under the quick workloads (gcc --coverage): a blind-spot finder, not a check.
# Each check runs with VERIF_CFLAGS_EXTRA=--coverage and keeps its build directory; the .gcda files of all driver runs are merged by gcov.
# Prints the source lines of the library that no quick workload executed.
cd "$(dirname "$0")/.."
[ $# -eq 0 ] && set -- C01 C02 C03 C04 C05 C06 C07 C08 C10 C11 C12 C13 C14 C15 C16 C17 C19 C20
out=/tmp/w/cov; rm -rf $out; mkdir -p $out/ev
for c in "$@"; do
  VERIF_KEEP_WORK=1 VERIF_CFLAGS_EXTRA="--coverage" VERIF_EVIDENCE_DIR=$out/ev VERIF_REPLAY_DIR=$out/replay ./check $c quick 2>&1 | tail -1
done
# merge: gcov-tool is not needed, gcov reads every notes/data pair; sum executed lines over all build dirs
python3 - "$out" <<'PY'
import glob, os, re, subprocess, sys, collections
out = sys.argv[1]
hits = collections.defaultdict(lambda: collections.defaultdict(int))
for gcda in glob.glob("/verif/work/run-*/*.gcda"):
    d = os.path.dirname(gcda)
    r = subprocess.run(["gcov", "-o", d, "-t", gcda], capture_output=True, text=True, cwd=d)
    cur = None
    for line in r.stdout.splitlines():
        m = re.match(r"\s*([^:]+):\s*(\d+):(.*)$", line)
        if not m:
            continue
        cnt, no, src = m.group(1).strip(), int(m.group(2)), m.group(3)
        if no == 0:
            mm = re.match(r"Source:(.*)$", src)
            if mm:
                cur = os.path.basename(mm.group(1))
            continue
        if cur is None or not cur.endswith(".c") or cur in ("driver.c", "wrap.c", "poke.c", "threads.c", "fuzz_target.c"):
            continue
        if cnt == "-":
            continue
        hits[cur][no] += 0 if cnt.startswith(("#", "=")) else int(re.sub(r"\D", "", cnt) or 0)
tot = ex = 0
for f in sorted(hits):
    lines = open(os.path.join(os.environ.get("VERIF_REPO", "/repo"), "src" if f != "asmline.c" else "tools", f)).read().split("\n")
    miss = [n for n, c in sorted(hits[f].items()) if c == 0]
    tot += len(hits[f]); ex += len(hits[f]) - len(miss)
    print("%-18s %4d/%4d lines executed" % (f, len(hits[f]) - len(miss), len(hits[f])))
    for n in miss:
        print("      %4d: %s" % (n, lines[n - 1].strip()[:110]))
print("total: %d of %d executable lines (%.1f%%)" % (ex, tot, 100.0 * ex / max(1, tot)))
PY
rm -rf /verif/work/run-*
