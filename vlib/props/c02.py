"""C02 - memory operands encode exactly the written effective address."""
from .. import common, isa, enc


def sensitive(c):
    return c["index"] in ("rsp", "esp") or (c["index"] and not c["base"])


def run(tier):
    v = common.Verdict("C02", tier)
    binary = common.build("asan")
    rnd = common.rng("c02")
    full = tier == "thorough"
    cases = isa.gen_mem(full, rnd, per_class=None if full else 4000)
    # documented STRICT exception: [base+rsp] under swap=STRICT is encoded literally (index field = none)
    strict_cases = []
    for c in cases:
        if c["index"] in ("rsp", "esp"):
            s = dict(c)
            ops = []
            s["exp"] = tuple(("m", o[1], o[2], tuple(x for x in o[3] if x[0] != c["index"]), o[4]) if (isinstance(o, tuple) and o[0] == "m") else o for o in c["exp"])
            s["strict_literal"] = True
            s["noref"] = True
            strict_cases.append(s)

    def combos_for(c):
        if c.get("strict_literal"):
            return ["20" + n for n in "01"]
        if c["index"] in ("rsp", "esp"):
            return ["21" + n for n in "01"]
        if sensitive(c):
            return ["2" + s + n for s in "01" for n in "01"]
        return [enc.DEFAULT]

    st = enc.run(v, cases + strict_cases, binary, combos_for)
    v.cov["rule"] = ("address shapes (base in none/16 r64/16 r32) x index classes x scale absent/1/2/4/8 in both factor orders x displacement boundaries "
                     "(hex and decimal) x %d instruction classes taking a memory operand; mode-sensitive shapes (stack-pointer index, no-base scaled index) under "
                     "all swap x no-base modes with the documented STRICT literal encoding as explicit expectation; judged on decoded base/index/scale as a linear "
                     "form, sign-extended displacement, address size and access width; distinct = (text, bytes) read back as expected by both decoders" % len(set(c["form"] for c in cases)))
    v.cov["exhaustive"] = False
    v.cov["classes"] = sorted(set(c["form"] for c in cases))
    v.assumptions += ["LLVM-MC and libopcodes decode correctly where nasm's encoding of the same line validates them",
                      "the STRICT stack-pointer-index literal encoding has no nasm spelling; its expectation (index dropped) is taken from the header's documented example"]
    floor = st["held"] > 1000 and st["reference_validated_cases"] >= 0.995 * st["cases"]
    return v.finish(st, floor, "too few judged cases or reference side not validated: %r" % st)
