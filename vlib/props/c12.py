"""C12 - option setters compose as documented (12-state x 20-transition reference FSM)."""
import itertools
from .. import common

SETTERS = ["mov", "swap", "nobase", "sib", "all"]
INIT = (2, 1, 1)  # SMART / NASM / NASM
PROBES = "mov rax, 0x7fffffff\nmov rax, 0x000000007fffffff\nlea r15, [rax+rsp]\nlea r15, [2*rax]\n"
# option-sensitive lines of the OTHER encoder paths (VEX / SSE / MMX memory operands, one-operand forms, 32-bit address registers, [1*index],
# r8-r15 / decimal / negated / 16-digit literals): compared with a fresh instance in the same state
EXT_PROBES = ("vpaddb ymm1, ymm2, [2*r12+8]\npush qword [rbx+rsp]\ninc dword [2*rsi]\nlea r15d, [eax+esp]\nlea r14, [2*r13d]\nmov r9, 1\nmov r12, 0x0000000000000010\n"
              "paddb xmm1, [rbp+rsp+8]\nmovntq [2*rdx-0x80], mm1\nsete [rcx+rsp]\nmov r10, 4294967295\nbextr rax, [2*r9], rbx\ncall [r8+rsp]\nmov rcx, -0xffffffff00000001\n"
              "lea rax, [1*rcx]\npush qword [1*rbx]\nvpaddb ymm0, ymm1, [1*rsi]\ncall [1*rax+0x10]\nlea eax, [1*ecx]\nmov rdx, [1*r10+8]\nlea rbx, [4*rcx]\nlea rbx, [8*r9+8]\n")
MOV64 = "48b8ffffff7f00000000"
MOV32 = "b8ffffff7f"


def step(state, setter, val):
    """reference model: the man page / header semantics"""
    mov, swap, nobase = state
    if setter == "mov":
        if val in (0, 1, 2):
            mov = val
    elif setter == "swap":
        if val in (0, 1):
            swap = val
    elif setter == "nobase":
        if val in (0, 1):
            nobase = val
    elif setter == "sib":
        if val in (0, 1):
            swap = nobase = val
    elif setter == "all":
        if val in (0, 1):
            mov = swap = nobase = val
        elif val == 2:
            mov = 2
    return (mov, swap, nobase)


def probe_obs_expected(state):
    """what the four probes must show in a given option state (documented semantics):
    (p1 narrowed?, p2 narrowed?, swap applied?, no-base rewriting applied?)"""
    mov, swap, nobase = state
    return (mov != 0, mov == 1, swap == 1, nobase == 1)


_obs_cache = {}


def probe_obs(hexbytes):
    """decode the concatenated probe code (two decoders must agree) and classify each probe by meaning,
    so that an equivalent encoding of the same behaviour is not an alarm."""
    if hexbytes in _obs_cache:
        return _obs_cache[hexbytes]
    from .. import oracle
    out = []
    rest = hexbytes
    why = None
    for k in range(4):
        # find the instruction boundary: shortest prefix both decoders consume exactly
        found = None
        for n in range(1, min(15, len(rest) // 2) + 1):
            st, c1, c2, info = oracle.canon_bytes(rest[:2 * n])
            if st == "ok" and c1 == c2:
                found = (n, c1, info)
                break
        if not found:
            why = "probe %d undecodable: %s" % (k, rest)
            break
        n, c, info = found
        rest = rest[2 * n:]
        if k < 2:
            if c[0] != "mov" or c[2] != ("i", 0x7fffffff) or c[1] not in (("r", "rax"), ("r", "eax")):
                why = "probe %d is not mov rax/eax, 0x7fffffff: %s" % (k, info)
                break
            out.append(c[1] == ("r", "eax"))
        elif k == 2:
            if c[0] != "lea" or c[1] != ("r", "r15") or c[2][0] != "m":
                why = "probe 2 is not lea r15, [..]: %s" % info
                break
            lin = dict(c[2][3])
            if lin == {"rax": 1, "rsp": 1}:
                out.append(True)
            elif lin == {"rax": 1}:
                out.append(False)
            else:
                why = "probe 2 address: %s" % info
                break
        else:
            if c[0] != "lea" or c[1] != ("r", "r15") or c[2][0] != "m" or dict(c[2][3]) != {"rax": 2} or c[2][4] != 0:
                why = "probe 3 is not lea r15, [2*rax]: %s" % info
                break
            out.append(n == 4)  # base+index form (4 bytes) vs literal no-base form with disp32 (8 bytes)
    if why is None and rest:
        why = "trailing bytes after 4 probes: %s" % rest
    res = (tuple(out) if why is None else None, why)
    _obs_cache[hexbytes] = res
    return res


def run(tier):
    v = common.Verdict("C12", tier)
    rnd = common.rng("c12")
    binary = common.build("asan")
    seqs = []  # list of list of (inst, setter, val)
    states = list(itertools.product((0, 1, 2), (0, 1), (0, 1)))
    trans = [(s, x) for s in SETTERS for x in (0, 1, 2, 3)]
    for st in states:
        canon = [(0, "mov", st[0]), (0, "swap", st[1]), (0, "nobase", st[2])]
        seqs.append(canon)
        for t in trans:
            seqs.append(canon + [(0,) + t])
    n_fsm = len(seqs)
    for L in (1, 2, 3):
        for combo in itertools.product(trans, repeat=L):
            seqs.append([(0,) + t for t in combo])
    n_exh = len(seqs)
    odd = [3, -1, 7, 255, 2147483647, -2147483648, 4, 256, 5, 6, -2, 258, 65537, 8, 16, -256]
    nrand = 2000 if tier == "quick" else 100000
    for k in range(nrand):
        ninst = 1 if k % 3 == 0 else (2 if k % 3 == 1 else 3)
        if k % 11 == 10:
            ninst = rnd.choice([4, 5, 8, 9, 15, 16])  # more live instances than any small per-process table of option slots has entries
        L = rnd.randrange(4, 41)
        seqs.append([(rnd.randrange(ninst), rnd.choice(SETTERS), rnd.choice([0, 1, 2] * 3 + odd)) for _ in range(L)])
    def to_cmds(seq):
        ninst = 1 + max([i for i, _, _ in seq] + [0])
        cmds = ["new %d ext 256 H 0xcc" % i for i in range(ninst)]
        for i, s, x in seq:
            cmds.append("opt %d %s %d" % (i, s, x))
        # the EXTENDED probes first (option-sensitive lines of the other encoder paths; compared byte for byte with a fresh instance
        # that was put into the model's state by the three individual setters), then the four classic probes at offset 0
        for i in range(ninst):
            cmds += ["asm %d %s" % (i, common.hx(EXT_PROBES)), "dump %d 0 250" % i, "setoff %d 0" % i]
        for i in range(ninst):
            cmds.append("asm %d %s" % (i, common.hx(PROBES)))
            cmds.append("dump %d 0 40" % i)
        return cmds

    # reference bytes of the extended probes in each of the 12 states
    states12 = list(itertools.product((0, 1, 2), (0, 1), (0, 1)))
    rr = common.run_cases(binary, [["new 0 ext 256 H 0xcc", "opt 0 mov %d" % a, "opt 0 swap %d" % b, "opt 0 nobase %d" % c, "asm 0 %s" % common.hx(EXT_PROBES), "dump 0 0 250"] for (a, b, c) in states12], tag="c12e")
    EXT_REF = {}
    for stt, r in zip(states12, rr):
        if r["crash"] or r["records"][4].split()[1] != "0":
            v.violation({"key": "extended probes in state %r" % (stt,), "fam": "precondition"}, "precondition:valid-lines-rejected", str(r["crash"] or r["records"][4]))
            return v.finish()
        EXT_REF[stt] = (r["records"][4].split()[3], r["records"][5].split()[1])

    cases = [to_cmds(seq) for seq in seqs]
    res = common.run_cases(binary, cases, tag="c12")
    runs = [(seq, cmds, r, "") for seq, cmds, r in zip(seqs, cases, res)]
    # the state of a NEW instance must not depend on what the heap happened to contain: the instance is malloc'ed, and both
    # ASan's default fill pattern (0xbe) and a zeroed heap coincide with plausible option values. Sequences that leave at least
    # one dimension untouched are repeated under other heap fill patterns, on the ASan and on the uninstrumented build.
    short = [([], to_cmds([]))] + [(seq, cmds) for seq, cmds in zip(seqs[:n_exh], cases[:n_exh]) if len(seq) <= 1][:80]
    plain = common.build("plain")
    heaps = [("asan", binary, {"ASAN_OPTIONS": common.SAN_ENV["ASAN_OPTIONS"] + ":malloc_fill_byte=%d" % b}, "asan-fill-%02x" % b) for b in (0x00, 0xff, 0x41, 0x5a)]
    heaps += [("plain", plain, {"MALLOC_PERTURB_": str(b)}, "glibc-perturb-%d" % b) for b in (0, 1, 85, 170, 255)]
    for fl, bn, envx, name in heaps:
        rs = common.run_cases(bn, [c for _, c in short], tag="c12h", env_extra=envx)
        runs += [(seq, cmds, r, name) for (seq, cmds), r in zip(short, rs)]
    # ... nor on instances that lived and died BEFORE it: predecessors on library and caller buffers with non-default options, small
    # and large (grown) programs, one or several of them, are created, used and destroyed first
    big = common.hx("\n".join(["mov rax, 0x1122334455667788"] * 1500))
    small = common.hx(PROBES)
    preds = {"pred-int-small": ["new 5 int", "opt 5 all 0", "asm 5 %s" % small, "del 5"],
             "pred-int-grown": ["new 5 int", "opt 5 all 0", "asm 5 %s" % big, "del 5"],
             "pred-int-grown-x3": ["new 5 int", "opt 5 all 0", "asm 5 %s" % big, "del 5", "new 6 int", "opt 6 mov 1", "opt 6 sib 0", "asm 6 %s" % big, "new 7 int", "asm 7 %s" % big, "del 7", "del 6"],
             "pred-ext": ["new 5 ext 65536 H 0xcc", "opt 5 all 0", "opt 5 mov 1", "asm 5 %s" % big, "del 5"],
             "pred-alive": ["new 5 int", "opt 5 all 0", "asm 5 %s" % big]}
    for pname, pcmds in sorted(preds.items()):
        # the instance under test on a library buffer (every second case) or on a caller buffer
        pc = [pcmds + ([x.replace("ext 256 H 0xcc", "int") if x.startswith("new ") and k % 2 == 0 else x for x in c]) for k, (_, c) in enumerate(short[:40])]
        rs = common.run_cases(binary, pc, tag="c12p")
        for (seq, cmds), r in zip(short[:40], rs):
            if not r["crash"]:
                r = dict(r, records=r["records"][len(pcmds):])  # the judge reads the records of the instance under test only
            runs.append((seq, pcmds + cmds, r, pname))
    v.cov["predecessor_variants"] = sorted(preds)
    v.cov["heap_fill_variants"] = [h[3] for h in heaps]
    v.cov["heap_fill_cases"] = len(short) * len(heaps)
    seen_states = set()
    seen_trans = set()
    for seq, cmds, r, heap in runs:
        v.count()
        ninst = 1 + max([i for i, _, _ in seq] + [0])
        case = {"key": (heap + " " if heap else "") + " ".join("%d:%s(%d)" % t for t in seq)[:300], "fam": "optseq" if not heap else "optseq_heap", "len": len(seq), "ninst": ninst, "heap": heap}
        if r["crash"]:
            v.violation(case, r["crash"]["sig"], r["crash"]["stderr"][-800:])
            continue
        st = [INIT] * ninst
        for i, s, x in seq:
            new = step(st[i], s, x)
            seen_trans.add((st[i], s, x if x in (0, 1, 2) else "other"))
            st[i] = new
        recs = r["records"]
        bad = None
        for i in range(ninst):
            ea, ed = recs[ninst + len(seq) + 3 * i].split(), recs[ninst + len(seq) + 3 * i + 1].split()
            want_off, want_bytes = EXT_REF[st[i]]
            if ea[0] != "A" or ea[1] != "0" or ea[3] != want_off or ed[1][:2 * int(want_off)] != want_bytes[:2 * int(want_off)]:
                bad = ("state-mismatch:extended-probes", "inst %d expected state %r: got %s %s, a fresh instance in that state gives offset %s %s" % (i, st[i], " ".join(ea[:4]), ed[1][:2 * int(want_off)], want_off, want_bytes[:2 * int(want_off)]))
                break
        for i in range(ninst):
            if bad:
                break
            a = recs[-2 * (ninst - i)].split()
            d = recs[-2 * (ninst - i) + 1].split()
            exp = probe_obs_expected(st[i])
            if a[0] != "A" or a[1] != "0":
                bad = ("probe-rejected", "inst %d state %r: %s" % (i, st[i], " ".join(a)))
                break
            n = int(a[3])
            got, why = probe_obs(d[1][:2 * n])
            if got is None:
                bad = ("probe-undecodable", "inst %d state %r: %s" % (i, st[i], why))
                break
            if got != exp:
                dims = [nm for nm, e, g in zip(("mov.p1", "mov.p2", "swap", "nobase"), exp, got) if e != g]
                bad = ("state-mismatch:" + ",".join(d.split(".")[0] for d in dims), "inst %d expected state %r obs %r got %r bytes %s" % (i, st[i], exp, got, d[1][:2 * n]))
                break
            seen_states.add(st[i])
        if bad:
            v.violation(case, bad[0], bad[1])
        else:
            v.distinct((heap,) + tuple(seq))
            if len(v.cov["samples"]) < 8 and (len(seq) in (1, 4) or rnd.random() < 0.002):
                v.sample({"sequence": case["key"], "final_states": [list(s) for s in st], "probe_observations(p1 narrowed,p2 narrowed,swap,nobase)": [list(probe_obs_expected(s)) for s in st]})
    v.cov["rule"] = ("reference FSM over (mov, swap, nobase); from each of the 12 states each of the 20 transitions (5 setters x {STRICT,NASM,SMART,3}); all setter sequences of "
                     "length <= 3 (8420); %d seeded sequences of length 4-40 incl. other out-of-range values on 1-3 interleaved live instances; state observed through 4 probe lines (decoded) and 22 extended probe lines of the other encoder paths (bytes compared with a fresh instance put into the model's state by the individual setters) "
                     "lines, decoded by two decoders and classified by meaning (destination eax/rax, address form) as the header documents per state; distinct = distinct sequences that matched the model" % nrand)
    v.cov["exhaustive"] = True
    v.cov["states"] = len(seen_states)
    v.cov["transitions"] = len(seen_trans)
    v.cov["fsm_cases"] = n_fsm
    v.cov["exhaustive_sequences_upto3"] = n_exh - n_fsm
    v.assumptions += ["the man page semantics (asm_set_all includes asm_sib_no_base; the header comment of asm_set_all omits it) is the reference"]
    return v.finish(None, len(seen_states) == 12, "not all 12 states observed: %d" % len(seen_states))
