"""Committed supported-form spec (DESIGN 2.5) and case builders.

The obligation "every supported form" is data here, written from the mnemonic list
documented in src/instructions.c plus the x86-64 ISA - it is NOT read off the table
of the tree under test, so deleting or corrupting a table row cannot shrink it.
The nasm referee keeps it honest at run time (a form nasm rejects is inconclusive).

A case is a dict:
  text   AssemblyLine syntax       nasm  nasm syntax (default: text)
  exp    expected canonical tuple  mn, form, w, regs, fam ... structural fields used
                                   by known-finding predicates
"""
from .canon import R64, R32, R16, R8, R8H, REGW, canon_expected, regnum

ALU = "adc add and cmp or sbb sub xor".split()
CCS = "a ae b be c e g ge l le na nae nb nbe nc ne ng nge nl nle no np ns nz o p pe po s z".split()
CMOV = ["cmov" + c for c in CCS]
SETCC = ["set" + c for c in CCS]
JCC = "ja jae jb je jg jge jl jle jne jno jnp jns jo jp js".split()  # spellings the table can reach
UNARY = "dec inc neg not".split()
SHIFT_CL = "sal sar shl shr".split()
SHIFT_IMM = "rcr ror sal sar shl shr".split()
NOARG = "clc cpuid lfence mfence sfence rdpmc rdtsc rdtscp ret xend".split()
BMI_RMV = "bextr bzhi sarx shlx shrx".split()
SSE_VV_ONLY = "cvtdq2pd cvtpd2dq divpd mulpd punpcklqdq".split()
SSE_MMX = "paddb paddd paddq paddw pand pandn pmulhrsw pmulhuw pmulhw pmullw pmuludq por psubb psubd psubq psubw pxor".split()
SSE_ONLY_RM = "pmulld pmuldq".split()  # vm, vv
AVX_256_ONLY = "vaddpd vdivpd vmulpd vsubpd vpermd".split()
AVX_BOTH = "vpaddb vpaddd vpaddq vpaddw vpand vpandn vpmuldq vpmulhrsw vpmulhuw vpmulhw vpmulld vpmullw vpmuludq vpor vpsubb vpsubd vpsubq vpsubw vpxor".split()
AVX_IMM = "vperm2i128 vperm2f128".split()
AVX_MOV = "vmovupd vmovdqu".split()
MM = ["mm%d" % i for i in range(8)]
XMM = ["xmm%d" % i for i in range(16)]
YMM = ["ymm%d" % i for i in range(16)]

BYW = {8: R8, 16: R16, 32: R32, 64: R64}
NEEDS_REX8 = set(R8[4:])  # spl.. r15b need a REX prefix


def regs8():
    return R8 + R8H


def ok8(*rs):
    """x86-64 cannot combine ah/ch/dh/bh with a register that needs REX."""
    hi = any(r in R8H for r in rs)
    rex = any((r in NEEDS_REX8) or (regnum(r) >= 8 and r not in R8H) for r in rs)
    return not (hi and rex)


def R(n):
    return ("r", n)


def I(v):
    return ("i", v)


def mk(fam, mn, form, text, ops, w=None, nasm=None, **kw):
    c = {"fam": fam, "mn": mn, "form": form, "text": text, "nasm": nasm or text, "w": w,
         "exp": canon_expected("nop" if mn.startswith("nop") else mn, ops)}
    c["regs"] = [o[1] for o in ops if o[0] == "r"]
    c["ext"] = [regnum(r) >= 8 and r not in R8H for r in c["regs"]]
    c.update(kw)
    return c


# ----------------------------------------------------------------- C01
def gen_int_regs(full=True, sample=None):
    """All register-only general-purpose forms."""
    out = []
    for mn in ALU + ["mov", "test", "xchg"]:
        for w in (8, 16, 32, 64):
            rs = regs8() if w == 8 else BYW[w]
            for a in rs:
                for b in rs:
                    if w == 8 and not ok8(a, b):
                        continue
                    c = mk("alu_rr", mn, "rr", "%s %s, %s" % (mn, a, b), [R(a), R(b)], w)
                    if mn == "xchg" and a == b and w in (16, 64):
                        # architecturally a no-op: the one-byte-opcode NOP encoding is the same instruction
                        c["exp"] = ("nop",)
                        c["alt"] = [canon_expected(mn, [R(a), R(b)])]
                    out.append(c)
    for mn in CMOV + ["imul"]:
        for w in (16, 32, 64):
            for a in BYW[w]:
                for b in BYW[w]:
                    out.append(mk("cmov_rr" if mn != "imul" else "imul_rr", mn, "rr", "%s %s, %s" % (mn, a, b), [R(a), R(b)], w))
    for mn in ("adcx", "adox"):
        for w in (32, 64):
            for a in BYW[w]:
                for b in BYW[w]:
                    out.append(mk("adx_rr", mn, "rr", "%s %s, %s" % (mn, a, b), [R(a), R(b)], w))
    for mn in UNARY + ["imul"]:
        for w in (8, 16, 32, 64):
            for a in (regs8() if w == 8 else BYW[w]):
                out.append(mk("unary_r", mn, "r", "%s %s" % (mn, a), [R(a)], w))
    for dw in (16, 32, 64):
        for a in BYW[dw]:
            for b in regs8():
                if b in R8H and (regnum(a) >= 8 or dw == 64):
                    continue  # REX (REX.W / REX.R) excludes ah..bh
                if True:
                    out.append(mk("movzx", "movzx", "rr", "movzx %s, %s" % (a, b), [R(a), R(b)], dw, srcw=8))
    for dw in (32, 64):
        for a in BYW[dw]:
            for b in R16:
                out.append(mk("movzx", "movzx", "rr", "movzx %s, %s" % (a, b), [R(a), R(b)], dw, srcw=16))
    for mn in SETCC:
        for a in regs8():
            out.append(mk("setcc_r", mn, "r", "%s %s" % (mn, a), [R(a)], 8))
    for mn in SHIFT_CL:
        for w in (8, 16, 32, 64):
            for a in (regs8() if w == 8 else BYW[w]):
                out.append(mk("shift_cl", mn, "rr", "%s %s, cl" % (mn, a), [R(a), R("cl")], w))
    for w in (16, 32, 64):
        for a in BYW[w]:
            for b in BYW[w]:
                out.append(mk("shld_cl", "shld", "rrr", "shld %s, %s, cl" % (a, b), [R(a), R(b), R("cl")], w))
    for mn in ("push", "pop"):
        for w in (16, 64):
            for a in BYW[w]:
                out.append(mk("pushpop_r", mn, "r", "%s %s" % (mn, a), [R(a)], w))
    for mn in NOARG:
        out.append(mk("noarg", mn, "n", mn, [], None))
    nops = {1: "0x90", 2: "0x66,0x90", 3: "0x0f,0x1f,0x00", 4: "0x0f,0x1f,0x40,0x00", 5: "0x0f,0x1f,0x44,0x00,0x00",
            6: "0x66,0x0f,0x1f,0x44,0x00,0x00", 7: "0x0f,0x1f,0x80,0,0,0,0", 8: "0x0f,0x1f,0x84,0,0,0,0,0",
            9: "0x66,0x0f,0x1f,0x84,0,0,0,0,0", 10: "0x66,0x66,0x0f,0x1f,0x84,0,0,0,0,0",
            11: "0x66,0x66,0x66,0x0f,0x1f,0x84,0,0,0,0,0"}
    for n, db in nops.items():
        name = "nop" if n == 1 else "nop%d" % n
        out.append(mk("nop", name, "n", name, [], None, nasm="db " + db, explen=n))
    return out


def gen_bmi_regs(corners_only=False, rnd=None, frac=1.0):
    """BMI2 / ADX three-register VEX forms over all r32^3 and r64^3."""
    out = []
    for mn in BMI_RMV + ["mulx"]:
        for w in (32, 64):
            rs = BYW[w]
            for a in rs:
                for b in rs:
                    for c in rs:
                        corner = all(regnum(x) in (0, 7, 8, 15) for x in (a, b, c))
                        if corners_only and not corner:
                            if rnd is None or rnd.random() >= frac:
                                continue
                        out.append(mk("bmi_rrr", mn, "rrr", "%s %s, %s, %s" % (mn, a, b, c), [R(a), R(b), R(c)], w))
    for w in (32, 64):
        rs = BYW[w]
        for a in rs:
            for b in rs:
                for v in (0, 1, 31, 63):
                    out.append(mk("rorx_rri", "rorx", "rri", "rorx %s, %s, %d" % (a, b, v), [R(a), R(b), I(v)], w, imm=v))
    return out


# ----------------------------------------------------------------- C04
def gen_vec_regs(corners_only=False, rnd=None, frac=1.0):
    out = []

    def pick3(rs):
        for a in rs:
            for b in rs:
                for c in rs:
                    corner = all(regnum(x) in (0, 7, 8, 15) for x in (a, b, c))
                    if corners_only and not corner:
                        if rnd is None or rnd.random() >= frac:
                            continue
                    yield a, b, c

    for mn in SSE_VV_ONLY + SSE_MMX + SSE_ONLY_RM:
        for a in XMM:
            for b in XMM:
                out.append(mk("sse_vv", mn, "vv", "%s %s, %s" % (mn, a, b), [R(a), R(b)], 128))
    for mn in SSE_MMX:
        for a in MM:
            for b in MM:
                out.append(mk("mmx_rr", mn, "rr", "%s %s, %s" % (mn, a, b), [R(a), R(b)], 64))
    for a in XMM:
        for b in R32:
            out.append(mk("movd_vr", "movd", "vr", "movd %s, %s" % (a, b), [R(a), R(b)], 32))
            out.append(mk("movd_rv", "movd", "rv", "movd %s, %s" % (b, a), [R(b), R(a)], 32))
        for b in R64:
            out.append(mk("movq_vr", "movq", "vr", "movq %s, %s" % (a, b), [R(a), R(b)], 64))
            out.append(mk("movq_rv", "movq", "rv", "movq %s, %s" % (b, a), [R(b), R(a)], 64))
        for b in XMM:
            out.append(mk("movq_vv", "movq", "vv", "movq %s, %s" % (a, b), [R(a), R(b)], 128))
        for v in (0, 1, 0x7f, 0xff):
            out.append(mk("psrldq", "psrldq", "vi", "psrldq %s, %d" % (a, v), [R(a), I(v)], 128, imm=v))
    for mn in AVX_256_ONLY + AVX_BOTH:
        for a, b, c in pick3(YMM):
            out.append(mk("avx_yyy", mn, "yyy", "%s %s, %s, %s" % (mn, a, b, c), [R(a), R(b), R(c)], 256))
    for mn in AVX_BOTH:
        for a, b, c in pick3(XMM):
            out.append(mk("avx_vvv", mn, "vvv", "%s %s, %s, %s" % (mn, a, b, c), [R(a), R(b), R(c)], 128))
    for mn in AVX_IMM:
        for a, b, c in pick3(YMM):
            for v in (0, 1, 0x31, 0xff):
                if corners_only and v not in (0x31,) and not all(regnum(x) in (0, 15) for x in (a, b, c)):
                    continue
                out.append(mk("avx_yyyi", mn, "yyyi", "%s %s, %s, %s, 0x%x" % (mn, a, b, c, v), [R(a), R(b), R(c), I(v)], 256, imm=v))
    for mn in AVX_MOV:
        for a in YMM:
            for b in YMM:
                out.append(mk("avx_mov_yy", mn, "yy", "%s %s, %s" % (mn, a, b), [R(a), R(b)], 256))
        for a in XMM:
            for b in XMM:
                out.append(mk("avx_mov_vv", mn, "vv", "%s %s, %s" % (mn, a, b), [R(a), R(b)], 128))
    return out
