/*
 * wrap.c - link-time interposition layer (ld --wrap) used instead of source
 * hooks: failpoints for every OS call the library makes, forced-move mremap,
 * guarded file mappings.  Only active while wrap_in_api != 0 (the driver sets
 * it around library calls) so the harness' own allocations are unaffected.
 */
#define _GNU_SOURCE 1
#include <errno.h>
#include <fcntl.h>
#include <stdarg.h>
#include <stdio.h>
#include <stdlib.h>
#include <string.h>
#include <sys/mman.h>
#include <sys/stat.h>
#include <unistd.h>

#define PAGE 4096UL

volatile int wrap_in_api = 0;

enum { S_MALLOC, S_MMAP, S_MREMAP, S_MUNMAP, S_OPEN, S_FSTAT, S_FOPEN,
       S_FWRITE, S_FCLOSE,
       /* calls the library makes today (read, close) or that a changed library
        * may start to make: wrapped so that a failpoint exists as soon as a call
        * does */
       S_READ, S_CLOSE, S_CALLOC, S_REALLOC, S_MPROTECT, S_WRITE, S_FREAD,
       S_FFLUSH, S_PREAD, S_LSEEK, S_RENAME, S_FTRUNCATE, S_N };
static const char *SYM[S_N] = {"malloc", "mmap",  "mremap", "munmap", "open",
                               "fstat",  "fopen", "fwrite", "fclose",
                               "read", "close", "calloc", "realloc", "mprotect",
                               "write", "fread", "fflush", "pread", "lseek",
                               "rename", "ftruncate"};
static long count[S_N];
static long fail_at[S_N];   /* 0 = never, k = k-th call fails (1-based) */
static long fail_from[S_N]; /* 0 = never, k = the k-th call and every later one fail */
static long injected[S_N];
static unsigned long rand_state = 0; /* != 0: every wrapped call is refused with probability rand_permille/1000 */
static long rand_permille = 0;
static long read_max = 0;   /* > 0: every read() delivers at most this many bytes */
static int read_errno = EIO;
static int force_move = 0;
static int guard_files = 0;
static long moves, growths, guarded_maps;

void *__real_malloc(size_t);
void *__real_mmap(void *, size_t, int, int, int, off_t);
void *__real_mremap(void *, size_t, size_t, int, ...);
int __real_munmap(void *, size_t);
int __real_open(const char *, int, ...);
int __real_fstat(int, struct stat *);
FILE *__real_fopen(const char *, const char *);
size_t __real_fwrite(const void *, size_t, size_t, FILE *);
int __real_fclose(FILE *);
ssize_t __real_read(int, void *, size_t);
int __real_close(int);
void *__real_calloc(size_t, size_t);
void *__real_realloc(void *, size_t);
int __real_mprotect(void *, size_t, int);
ssize_t __real_write(int, const void *, size_t);
size_t __real_fread(void *, size_t, size_t, FILE *);
int __real_fflush(FILE *);
ssize_t __real_pread(int, void *, size_t, off_t);
off_t __real_lseek(int, off_t, int);
int __real_rename(const char *, const char *);
int __real_ftruncate(int, off_t);

static int hit(int s) {
  if (!wrap_in_api)
    return 0;
  count[s]++;
  int rnd_hit = 0;
  if (rand_state) {
    rand_state = rand_state * 6364136223846793005UL + 1442695040888963407UL;
    rnd_hit = (long)((rand_state >> 33) % 1000) < rand_permille;
  }
  if (rnd_hit || (fail_at[s] && count[s] == fail_at[s]) ||
      (fail_from[s] && count[s] >= fail_from[s])) {
    injected[s]++;
    return 1;
  }
  return 0;
}

void *__wrap_malloc(size_t n) {
  if (hit(S_MALLOC)) {
    errno = ENOMEM;
    return NULL;
  }
  return __real_malloc(n);
}

/* file mappings whose real length (incl. guard) differs from what the caller
 * believes: remember so munmap can release everything */
static struct { void *p; size_t want, real; } gm[64];

void *__wrap_mmap(void *addr, size_t len, int prot, int flags, int fd,
                  off_t off) {
  if (hit(S_MMAP)) {
    errno = ENOMEM;
    return MAP_FAILED;
  }
  /* guard every non-executable mapping the library makes (file mappings and the
   * anonymous copy of a file): the byte after its last page is unreadable */
  if (wrap_in_api && guard_files && !(prot & PROT_EXEC) && len > 0) {
    size_t rounded = (len + PAGE - 1) / PAGE * PAGE;
    char *res = __real_mmap(NULL, rounded + PAGE, PROT_NONE,
                            MAP_PRIVATE | MAP_ANONYMOUS, -1, 0);
    if (res == MAP_FAILED)
      return MAP_FAILED;
    void *p = __real_mmap(res, len, prot, flags | MAP_FIXED, fd, off);
    if (p == MAP_FAILED) {
      __real_munmap(res, rounded + PAGE);
      return MAP_FAILED;
    }
    for (int i = 0; i < 64; i++)
      if (!gm[i].p) {
        gm[i].p = p;
        gm[i].want = len;
        gm[i].real = rounded + PAGE;
        break;
      }
    guarded_maps++;
    return p;
  }
  return __real_mmap(addr, len, prot, flags, fd, off);
}

int __wrap_munmap(void *p, size_t len) {
  if (hit(S_MUNMAP)) {
    errno = EINVAL;
    return -1;
  }
  for (int i = 0; i < 64; i++)
    if (gm[i].p && gm[i].p == p) {
      size_t real = gm[i].real;
      gm[i].p = NULL;
      (void)len;
      return __real_munmap(p, real);
    }
  return __real_munmap(p, len);
}

void *__wrap_mremap(void *old, size_t old_len, size_t new_len, int flags, ...) {
  if (hit(S_MREMAP)) {
    errno = ENOMEM;
    return MAP_FAILED;
  }
  if (wrap_in_api)
    growths++;
  if (wrap_in_api && force_move && (flags & MREMAP_MAYMOVE)) {
    /* always relocate: the old range becomes unmapped, stale pointers fault */
    size_t rounded = (new_len + PAGE - 1) / PAGE * PAGE;
    char *fresh = __real_mmap(NULL, rounded + PAGE, PROT_NONE,
                              MAP_PRIVATE | MAP_ANONYMOUS, -1, 0);
    if (fresh == MAP_FAILED)
      return MAP_FAILED;
    void *r = __real_mremap(old, old_len, new_len,
                            MREMAP_MAYMOVE | MREMAP_FIXED, fresh);
    if (r != MAP_FAILED)
      moves++;
    return r;
  }
  return __real_mremap(old, old_len, new_len, flags);
}

int __wrap_open(const char *path, int flags, ...) {
  mode_t mode = 0;
  va_list ap;
  va_start(ap, flags);
  mode = va_arg(ap, mode_t);
  va_end(ap);
  if (hit(S_OPEN)) {
    errno = EMFILE;
    return -1;
  }
  return __real_open(path, flags, mode);
}

static long fstat_shrink = 0; /* > 0: st_size is capped to this value - the file "grew" after it was stat'ed */

int __wrap_fstat(int fd, struct stat *st) {
  if (hit(S_FSTAT)) {
    errno = EIO;
    return -1;
  }
  int r = __real_fstat(fd, st);
  if (r == 0 && wrap_in_api && fstat_shrink > 0 && st->st_size > fstat_shrink)
    st->st_size = fstat_shrink;
  return r;
}

FILE *__wrap_fopen(const char *path, const char *mode) {
  if (hit(S_FOPEN)) {
    errno = EACCES;
    return NULL;
  }
  return __real_fopen(path, mode);
}

size_t __wrap_fwrite(const void *p, size_t sz, size_t n, FILE *f) {
  if (f != stderr && f != stdout && hit(S_FWRITE)) {
    /* short write: half of the items reach the stream */
    size_t part = n / 2;
    if (part)
      __real_fwrite(p, sz, part, f);
    errno = ENOSPC;
    return part;
  }
  return __real_fwrite(p, sz, n, f);
}

int __wrap_fclose(FILE *f) {
  if (f != stderr && f != stdout && hit(S_FCLOSE)) {
    __real_fclose(f);
    errno = ENOSPC;
    return EOF;
  }
  return __real_fclose(f);
}

ssize_t __wrap_read(int fd, void *p, size_t n) {
  if (hit(S_READ)) {
    errno = read_errno;
    return -1;
  }
  if (wrap_in_api && read_max > 0 && n > (size_t)read_max)
    n = (size_t)read_max; /* a short read: legal at any time */
  return __real_read(fd, p, n);
}

int __wrap_close(int fd) {
  if (hit(S_CLOSE)) {
    __real_close(fd); /* the descriptor is gone all the same, as on Linux */
    errno = EIO;
    return -1;
  }
  return __real_close(fd);
}

void *__wrap_calloc(size_t a, size_t b) {
  if (hit(S_CALLOC)) {
    errno = ENOMEM;
    return NULL;
  }
  return __real_calloc(a, b);
}

void *__wrap_realloc(void *p, size_t n) {
  if (hit(S_REALLOC)) {
    errno = ENOMEM;
    return NULL;
  }
  return __real_realloc(p, n);
}

int __wrap_mprotect(void *p, size_t n, int prot) {
  if (hit(S_MPROTECT)) {
    errno = ENOMEM;
    return -1;
  }
  return __real_mprotect(p, n, prot);
}

ssize_t __wrap_write(int fd, const void *p, size_t n) {
  if (fd > 2 && hit(S_WRITE)) {
    size_t part = n / 2;
    if (part)
      return __real_write(fd, p, part);
    errno = ENOSPC;
    return -1;
  }
  return __real_write(fd, p, n);
}

size_t __wrap_fread(void *p, size_t sz, size_t n, FILE *f) {
  if (hit(S_FREAD)) {
    errno = EIO;
    return 0;
  }
  return __real_fread(p, sz, n, f);
}

int __wrap_fflush(FILE *f) {
  if (f != stderr && f != stdout && f != NULL && hit(S_FFLUSH)) {
    errno = ENOSPC;
    return EOF;
  }
  return __real_fflush(f);
}

ssize_t __wrap_pread(int fd, void *p, size_t n, off_t off) {
  if (hit(S_PREAD)) {
    errno = EIO;
    return -1;
  }
  return __real_pread(fd, p, n, off);
}

off_t __wrap_lseek(int fd, off_t off, int wh) {
  if (hit(S_LSEEK)) {
    errno = ESPIPE;
    return (off_t)-1;
  }
  return __real_lseek(fd, off, wh);
}

int __wrap_rename(const char *a, const char *b) {
  if (hit(S_RENAME)) {
    errno = EACCES;
    return -1;
  }
  return __real_rename(a, b);
}

int __wrap_ftruncate(int fd, off_t n) {
  if (hit(S_FTRUNCATE)) {
    errno = EIO;
    return -1;
  }
  return __real_ftruncate(fd, n);
}

/* ---- driver interface ---- */
void wrap_cmd(const char *sub, const char *a, const char *b) {
  if (!strcmp(sub, "reset")) {
    memset(count, 0, sizeof count);
    memset(fail_at, 0, sizeof fail_at);
    memset(fail_from, 0, sizeof fail_from);
    read_max = 0;
    read_errno = EIO;
    rand_state = 0;
    memset(injected, 0, sizeof injected);
    moves = growths = guarded_maps = 0;
    fstat_shrink = 0;
  } else if (!strcmp(sub, "fail")) {
    for (int s = 0; s < S_N; s++)
      if (!strcmp(a, SYM[s]))
        fail_at[s] = count[s] + atol(b); /* k-th call from now */
  } else if (!strcmp(sub, "failfrom")) {
    for (int s = 0; s < S_N; s++)
      if (!strcmp(a, SYM[s]))
        fail_from[s] = count[s] + atol(b); /* k-th call from now and all later ones */
  } else if (!strcmp(sub, "failrand")) {
    rand_state = (unsigned long)atol(a) * 2 + 1; /* seed */
    rand_permille = atol(b);
  } else if (!strcmp(sub, "readmax")) {
    read_max = atol(a);
  } else if (!strcmp(sub, "readerrno")) {
    read_errno = atoi(a);
  } else if (!strcmp(sub, "forcemove")) {
    force_move = atoi(a);
  } else if (!strcmp(sub, "guardfiles")) {
    guard_files = atoi(a);
  } else if (!strcmp(sub, "fstatshrink")) {
    fstat_shrink = atol(a);
  }
}

void wrap_report(void (*pr)(const char *)) {
  char tmp[1024];
  int k = snprintf(tmp, sizeof tmp, "P");
  for (int s = 0; s < S_N; s++)
    k += snprintf(tmp + k, sizeof tmp - (size_t)k, " %s=%ld/%ld", SYM[s],
                  count[s], injected[s]);
  snprintf(tmp + k, sizeof tmp - (size_t)k, " growths=%ld moves=%ld gmaps=%ld\n",
           growths, moves, guarded_maps);
  pr(tmp);
}
