"""Shared infrastructure: builds from /repo's working tree, sharded driver runs,
crash attribution, known-finding matching, evidence and verdict handling."""
import atexit, binascii, glob, hashlib, json, os, random, shutil, subprocess, sys, time
from concurrent.futures import ThreadPoolExecutor

VERIF = os.path.dirname(os.path.dirname(os.path.abspath(__file__)))
REPO = os.environ.get("VERIF_REPO", "/repo")
NPROC = int(os.environ.get("VERIF_JOBS", "16"))
SEED = int(os.environ.get("VERIF_SEED", "20260926"))
GUARD = "ASSEMBLYLINE_VERIF"

_work = None


def workdir():
    global _work
    if _work is None:
        _work = os.path.join(VERIF, "work", "run-%d" % os.getpid())
        os.makedirs(_work, exist_ok=True)
        if not os.environ.get("VERIF_KEEP_WORK"):  # tools/coverage.sh keeps the build directory (gcov notes and data)
            atexit.register(lambda: shutil.rmtree(_work, ignore_errors=True))
    return _work


class HarnessError(Exception):
    pass


def hx(s):
    if isinstance(s, str):
        s = s.encode("latin-1")
    return binascii.hexlify(s).decode() or "-"


# ------------------------------------------------------------------ builds
WRAPS = "malloc mmap mremap munmap open fstat fopen fwrite fclose read close calloc realloc mprotect write fread fflush pread lseek rename ftruncate".split()
SAN = ["-fsanitize=address,undefined", "-fno-sanitize-recover=all", "-fno-omit-frame-pointer"]
FLAVOURS = {
    # name: (compiler, cflags, extra sources, ldflags)
    "asan": ("gcc", ["-O1", "-g"] + SAN, [], []),
    "plain": ("gcc", ["-O2", "-g"], [], []),
    "wrap": ("gcc", ["-O1", "-g", "-DUSE_WRAP"] + SAN, ["wrap.c"],
             ["-Wl," + ",".join("--wrap=" + w for w in WRAPS)]),
    "poke": ("gcc", ["-O2", "-g", "-DHAVE_POKE"], ["poke.c"], []),  # tools/table_mutants.py only
    "wrapplain": ("gcc", ["-O2", "-g", "-DUSE_WRAP"], ["wrap.c"],
                  ["-Wl," + ",".join("--wrap=" + w for w in WRAPS)]),
}
SAN_ENV = {
    "ASAN_OPTIONS": "abort_on_error=0:detect_leaks=0:detect_stack_use_after_return=1:allocator_may_return_null=1:exitcode=97",
    "UBSAN_OPTIONS": "print_stacktrace=1:exitcode=97",
}
_built = {}


def lib_sources():
    src = sorted(glob.glob(os.path.join(REPO, "src", "*.c")))
    if not src:
        raise HarnessError("no library sources under %s/src" % REPO)
    return src


def build(flavour, main="driver.c", out=None, extra_cflags=(), with_lib=True, libs=()):
    """Compile the library from REPO's working tree + a harness main, out of tree."""
    key = (flavour, main, tuple(extra_cflags))
    if key in _built:
        return _built[key]
    cc, cflags, extra, ld = FLAVOURS[flavour]
    out = out or os.path.join(workdir(), "%s-%s" % (os.path.splitext(os.path.basename(main))[0], flavour))
    hdir = os.path.join(VERIF, "harness")
    srcs = (lib_sources() if with_lib else []) + [os.path.join(hdir, main)] + [os.path.join(hdir, e) for e in extra]
    cmd = [cc] + cflags + ["-D" + GUARD, "-mno-red-zone", "-w", "-I" + os.path.join(REPO, "src")] + list(extra_cflags) + os.environ.get("VERIF_CFLAGS_EXTRA", "").split() + srcs + ld + ["-o", out] + list(libs)
    r = subprocess.run(cmd, capture_output=True, text=True)
    if r.returncode != 0:
        raise HarnessError("build failed (%s):\n%s\n%s" % (flavour, " ".join(cmd), r.stderr[-3000:]))
    _built[key] = out
    return out


# ------------------------------------------------------------- driver runs
# Heap contents must not matter: every driver process gets one of four fill patterns for freshly malloc'ed memory (ASan's
# malloc_fill_byte for instrumented builds, glibc's MALLOC_PERTURB_ for the others), chosen by shard / block index, so that an
# uninitialised field of the instance does not hide behind one lucky pattern (ASan's default 0xbe reads as SMART|NASM|NASM).
HEAP_FILLS = [(0xbe, 0), (0x00, 255), (0xff, 85), (0x41, 170)]


def heap_env(k, env_extra=None):
    e = dict(env_extra or {})
    fill, perturb = HEAP_FILLS[k % len(HEAP_FILLS)]
    if "ASAN_OPTIONS" not in e:
        e["ASAN_OPTIONS"] = SAN_ENV["ASAN_OPTIONS"] + ":malloc_fill_byte=%d" % fill
    e.setdefault("MALLOC_PERTURB_", str(perturb))
    return e


def _run_driver(binary, script_lines, tag, env_extra=None, timeout=None):
    """Run one driver process over script_lines. Returns (records, finished, stderr_text, rc)."""
    wd = workdir()
    sp = os.path.join(wd, "s-%s.txt" % tag)
    rp = os.path.join(wd, "r-%s.txt" % tag)
    ep = os.path.join(wd, "e-%s.txt" % tag)
    op = os.path.join(wd, "o-%s.txt" % tag)
    with open(sp, "w") as f:
        f.write("\n".join(script_lines))
        f.write("\n")
    env = dict(os.environ)
    env.update(SAN_ENV)
    if env_extra:
        env.update(env_extra)
    with open(ep, "wb") as ef, open(op, "wb") as of:
        try:
            r = subprocess.run([binary, sp, rp], stdout=of, stderr=ef, env=env, timeout=timeout, cwd=wd)
            rc = r.returncode
        except subprocess.TimeoutExpired:
            rc = -999
    try:
        with open(rp, "r", errors="replace") as f:
            data = f.read()
    except FileNotFoundError:
        data = ""
    recs = data.split("\n")
    if recs and recs[-1] == "":
        recs.pop()
    elif recs:
        recs.pop()  # incomplete last line
    finished = bool(recs) and recs[-1] == "Z"
    if finished:
        recs.pop()
    with open(ep, "r", errors="replace") as f:
        err = f.read()
    with open(op, "r", errors="replace") as f:
        outtxt = f.read()
    for p in (sp, rp, ep, op):
        try:
            os.unlink(p)
        except OSError:
            pass
    return recs, finished, err, rc, outtxt


def san_summary(err):
    """Short, stable signature of a sanitizer report / crash from stderr text."""
    sig = None
    for ln in err.splitlines():
        if "ERROR: AddressSanitizer:" in ln:
            sig = "asan:" + ln.split("AddressSanitizer:")[1].strip().split(" ")[0]
            break
        if "runtime error:" in ln:
            loc = ln.split(": runtime error:")[0].strip()
            loc = os.path.basename(loc.split(":")[0])
            msg = ln.split("runtime error:")[1].strip()
            msg = " ".join(w for w in msg.split() if not any(c.isdigit() for c in w))[:60]
            sig = "ubsan:%s:%s" % (loc, msg)
            break
        if "MemorySanitizer:" in ln:
            sig = "msan:" + ln.split("MemorySanitizer:")[1].strip().split(" ")[0]
            break
        if "ThreadSanitizer:" in ln:
            sig = "tsan:" + ln.split("ThreadSanitizer:")[1].strip().split("(")[0].strip().replace(" ", "-")
            break
    frame = None
    if sig:
        seen = False
        for ln in err.splitlines():
            s = ln.strip()
            if s.startswith("#") and " in " in s:
                fn = s.split(" in ")[1].split(" ")[0]
                if "/repo" in s or REPO in s or "/src/" in s:
                    frame = fn
                    break
                seen = True
        if frame:
            sig += "@" + frame
    return sig


# Circuit breaker for trees on which (nearly) every case hangs: each hang costs one watchdog period (20 s), so after
# HANG_LIMIT hangs in one check run the remaining cases of the workload are not executed. They are recorded as skipped
# (Verdict counts them, they are not violations); the hangs already observed are violations, so the verdict is unaffected.
# On a tree without hangs the breaker never engages.
HANG_LIMIT = 12
_hangs = [0]
SKIPPED = {"what": "skipped", "sig": "skipped:after-repeated-hangs", "stderr": "", "cmd_index": 0}


def _is_hang(what, rc):
    return rc == -999 or rc == 98 or " hang" in (" " + str(what))


def run_cases(binary, cases, tag="c", nproc=None, env_extra=None, per_case_timeout=30.0, prelude=()):
    """cases: list of lists of command strings (without the 'case' line).
    Returns list (aligned) of dicts {records:[...], crash:None|{what,stderr,sig}, stdout:str}.
    Every command yields exactly one record; a short record list + no 'Z' = crash
    in the command following the last record."""
    nproc = nproc or NPROC
    n = len(cases)
    results = [None] * n
    if n == 0:
        return results
    shards = [list(range(i, n, nproc)) for i in range(min(nproc, n))]

    def work(si):
        idxs = shards[si]
        pos = 0
        rounds = 0
        while pos < len(idxs):
            if _hangs[0] >= HANG_LIMIT:
                for ci in idxs[pos:]:
                    results[ci] = {"records": [], "crash": dict(SKIPPED)}
                break
            rounds += 1
            script = list(prelude)
            layout = []  # (case index, first record idx, ncmds)
            base = len(prelude)
            for ci in idxs[pos:]:
                script.append("case %d" % ci)
                layout.append((ci, base, len(cases[ci])))
                script.extend(cases[ci])
                base += 1 + len(cases[ci])
            # the in-process watchdog (20 s per case) is the real bound; this outer one only matters if the driver cannot even
            # run its alarm handler (seen: deadlock inside the sanitizer runtime while it reports). Cases take milliseconds.
            tmo = max(120, 60 + 0.25 * len(layout)) * max(1.0, per_case_timeout / 30.0)
            recs, finished, err, rc, outtxt = _run_driver(binary, script, "%s-%d-%d" % (tag, si, rounds), heap_env(si, env_extra), tmo)
            nrec = len(recs)
            crash_rec = None
            if recs and recs[-1].startswith("X "):
                crash_rec = recs.pop()
                nrec -= 1
            done = 0
            for (ci, first, nc) in layout:
                # records for this case: first is 'C n', then nc records
                if first + 1 + nc <= nrec:
                    results[ci] = {"records": recs[first + 1:first + 1 + nc], "crash": None}
                    done += 1
                else:
                    break
            if finished and done == len(layout):
                pos += done
                continue
            if done == len(layout):
                # every command produced its record but the driver did not end cleanly: it died while tearing the last case down
                ci = layout[-1][0]
                what = crash_rec or ("exit=%s" % rc)
                results[ci]["crash"] = {"what": what, "cmd_index": layout[-1][2], "sig": san_summary(err) or (_crash_sig(what) + "@teardown"), "stderr": err[-6000:]}
                pos += done
                continue
            # crashed (or hung) inside layout[done]
            ci, first, nc = layout[done]
            got = recs[first + 1:nrec] if first + 1 <= nrec else []
            what = crash_rec or ("exit=%s" % rc)
            if rc == -999:
                what = "hang(outer-timeout)"
            if _is_hang(what, rc):
                _hangs[0] += 1
            results[ci] = {"records": got, "crash": {"what": what, "cmd_index": len(got), "sig": san_summary(err) or _crash_sig(what), "stderr": err[-6000:]}}
            pos += done + 1
        return True

    with ThreadPoolExecutor(max_workers=len(shards)) as ex:
        list(ex.map(work, range(len(shards))))
    return results


def _crash_sig(what):
    if what.startswith("X "):
        parts = what.split(" ", 3)
        body = parts[3] if len(parts) > 3 else what
        toks = [t for t in body.split() if not t.startswith("0x")]
        # keep 'signal=11 at=extbuf rel=N' but bucket rel
        out = []
        for t in toks:
            if t.startswith("rel="):
                continue
            out.append(t)
        return "crash:" + ",".join(out)
    return "crash:" + what


def run_lines(binary, items, tag="l", nproc=None, env_extra=None, chunk=20000, prelude=()):
    """items: list of (mask, text, start). Returns aligned list of dicts:
    {rc, off, lo, hi, bytes} or {crash:{...}}."""
    nproc = nproc or NPROC
    n = len(items)
    results = [None] * n
    if n == 0:
        return results
    per = max(1, min(chunk, (n + nproc - 1) // nproc))
    blocks = [(s, min(n, s + per)) for s in range(0, n, per)]

    def work(bi):
        s, e = blocks[bi]
        pos = s
        rounds = 0
        while pos < e:
            if _hangs[0] >= HANG_LIMIT:
                for k in range(pos, e):
                    results[k] = {"crash": dict(SKIPPED)}
                break
            rounds += 1
            script = ["case %d" % bi] + list(prelude)
            for k in range(pos, e):
                m, t, st = items[k]
                script.append("line %s %s %d" % (m, hx(t), st))
            recs, finished, err, rc, _ = _run_driver(binary, script, "%s-%d-%d" % (tag, bi, rounds), heap_env(bi, env_extra), 120 + 0.01 * (e - pos))
            crash_rec = None
            if recs and recs[-1].startswith("X "):
                crash_rec = recs.pop()
            body = recs[1 + len(prelude):] if recs else []
            for j, r in enumerate(body):
                results[pos + j] = _parse_L(r)
            k = pos + len(body)
            if finished and k == e:
                break
            if k >= e:
                # all records are there but the driver did not end cleanly (it died after the last line): charge the last line
                what = crash_rec or ("exit=%s" % rc)
                results[e - 1] = {"crash": {"what": what, "sig": san_summary(err) or (_crash_sig(what) + "@teardown"), "stderr": err[-6000:]}}
                break
            what = crash_rec or ("exit=%s" % rc)
            if rc == -999:
                what = "hang(outer-timeout)"
            if _is_hang(what, rc):
                _hangs[0] += 1
            results[k] = {"crash": {"what": what, "sig": san_summary(err) or _crash_sig(what), "stderr": err[-6000:]}}
            pos = k + 1
        return True

    with ThreadPoolExecutor(max_workers=min(nproc, len(blocks))) as ex:
        list(ex.map(work, range(len(blocks))))
    return results


def _parse_L(r):
    p = r.split(" ")
    if p[0] != "L" or len(p) < 6:
        raise HarnessError("malformed line record: %r" % r)
    b = "" if p[5] == "-" else p[5]
    return {"rc": int(p[1]), "off": int(p[2]), "lo": int(p[3]), "hi": int(p[4]), "bytes": b}


# ------------------------------------------------------- known findings
def load_findings():
    p = os.path.join(VERIF, "known_findings.json")
    if not os.path.exists(p):
        return []
    with open(p) as f:
        return json.load(f)["findings"]


CURRENT = [None]  # the Verdict of the running check (so that ./check can still report violations if the check aborts)


class Verdict:
    """Collects violations of one property check, matches them against the
    committed known findings and produces exit status, evidence and replay files."""

    def __init__(self, prop, tier, level="exploration"):
        CURRENT[0] = self
        self.prop = prop
        self.tier = tier
        self.level = level
        self.t0 = time.time()
        self.findings = [f for f in load_findings() if (f["property"] == prop or prop in f.get("also", [])) and f.get("status") == "known"]
        self.known_hits = {}
        self.violations = {}  # key -> (n, first case)
        self.cov = {"evaluations": 0, "distinct_nontrivial": 0, "rule": "", "samples": []}
        self.assumptions = []
        self.inconclusive = []
        self._distinct = set()

    def count(self, n=1):
        self.cov["evaluations"] += n

    def distinct(self, key):
        self._distinct.add(key)

    def sample(self, s, cap=12):
        if len(self.cov["samples"]) < cap:
            self.cov["samples"].append(s)

    def violation(self, case, symptom, detail=None):
        """case: dict of structural fields (used by 'where' predicates);
        symptom: signature string; ';' (and ' | ' between the two decoders) separates atomic
        differences. The violation is a known finding iff EVERY atom is explained by some committed
        finding whose 'where' predicate holds for this case; otherwise it is reported."""
        if symptom.startswith("skipped:"):
            self.cov["cases_skipped_after_repeated_hangs"] = self.cov.get("cases_skipped_after_repeated_hangs", 0) + 1
            return
        atoms = []
        for part in symptom.split(" | "):
            for a in part.split(";"):
                if a and a != "same" and a not in atoms:
                    atoms.append(a)
        if not atoms:
            atoms = [symptom]
        expl = []
        unexplained = []
        wcache = {}
        for a in atoms:
            hit = None
            for f in self.findings:
                if not _sym_match(f.get("symptom"), a):
                    continue
                fid = f["id"]
                if fid not in wcache:
                    wcache[fid] = _where(f, case)
                if wcache[fid]:
                    hit = f
                    break
            if hit is None:
                unexplained.append(a)
            else:
                expl.append(hit)
        if not unexplained:
            for f in {id(x): x for x in expl}.values():
                h = self.known_hits.setdefault(f["id"], [0, f, case, symptom])
                h[0] += 1
            return expl[0]["id"]
        key = symptom + " | " + str(case.get("key", case.get("text", "")))[:160]
        if key not in self.violations:
            c2 = dict(case)
            c2["unexplained_atoms"] = unexplained
            self.violations[key] = [0, c2, symptom, detail]
        self.violations[key][0] += 1
        return None

    def finish(self, extra_cov=None, floor_ok=True, floor_msg=""):
        self.cov["distinct_nontrivial"] = max(self.cov["distinct_nontrivial"], len(self._distinct))
        if extra_cov:
            self.cov.update(extra_cov)
        self.cov["known_finding_hits"] = {k: v[0] for k, v in self.known_hits.items()}
        self.cov["inconclusive"] = len(self.inconclusive)
        if self.inconclusive:
            self.cov["inconclusive_samples"] = self.inconclusive[:10]
        ev = {
            "property_id": self.prop, "tier": self.tier, "seed": SEED, "level": self.level,
            "coverage": self.cov, "assumptions": self.assumptions,
            "wall_s": round(time.time() - self.t0, 2), "violations": len(self.violations),
        }
        evdir = os.environ.get("VERIF_EVIDENCE_DIR") or os.path.join(VERIF, "evidence")
        os.makedirs(evdir, exist_ok=True)
        with open(os.path.join(evdir, self.prop + ".json"), "w") as f:
            json.dump(ev, f, indent=1, default=str)
        for fid, (n, fnd, case, sym) in sorted(self.known_hits.items()):
            print("KNOWN-FINDING: property=%s %s: %s (%d cases, e.g. %s)" % (self.prop, fid, fnd["title"], n, str(case.get("text", case.get("key", "")))[:80]))
        rc = 0
        if self.violations and os.environ.get("VERIF_SUMMARY"):
            groups = {}
            for key, (n, case, sym, detail) in self.violations.items():
                g = (";".join(case.get("unexplained_atoms", [sym])), case.get("fam"), case.get("mn") if os.environ.get("VERIF_SUMMARY") == "2" else "", case.get("w"))
                e = groups.setdefault(g, [0, case.get("key", case.get("text")), case.get("got_bytes"), detail])
                e[0] += n
            from collections import Counter
            print("  INCONCLUSIVE breakdown:", Counter((i.get("why", "?").split(":")[0], i.get("fam")) for i in self.inconclusive).most_common(40))
            for g, e in sorted(groups.items(), key=lambda kv: -kv[1][0]):
                print("  GROUP %5d  %-40s fam=%s mn=%s w=%s   e.g. %s -> %s   %s" % (e[0], g[0], g[1], g[2], g[3], e[1], e[2], str(e[3])[:110]))
        if self.violations:
            rdir = os.path.join(os.environ.get("VERIF_REPLAY_DIR") or os.path.join(VERIF, "replay"), self.prop)
            os.makedirs(rdir, exist_ok=True)
            for i, (key, (n, case, sym, detail)) in enumerate(sorted(self.violations.items(), key=lambda kv: -kv[1][0])):
                h = hashlib.sha1(key.encode()).hexdigest()[:12]
                path = os.path.join(rdir, h + ".json")
                if i < int(os.environ.get('VERIF_REPLAY_CAP', '200')):
                    with open(path, "w") as f:
                        json.dump({"property": self.prop, "symptom": sym, "count": n, "case": case, "detail": detail, "seed": SEED, "tier": self.tier}, f, indent=1, default=str)
                if i < 20:
                    print("VIOLATION property=%s replay=%s  # %s x%d %s" % (self.prop, path, sym, n, str(case.get("text", case.get("key", "")))[:100]))
            print("%s: %d distinct violation keys" % (self.prop, len(self.violations)))
            rc = 1
        elif not floor_ok:
            print("INCONCLUSIVE property=%s %s" % (self.prop, floor_msg))
            rc = 2
        print("%s %s: evaluations=%d distinct=%d violations=%d known=%d wall=%.1fs" % (
            self.prop, self.tier, self.cov["evaluations"], self.cov["distinct_nontrivial"], len(self.violations), len(self.known_hits), time.time() - self.t0))
        return rc


_ENVF = {"__builtins__": {}, "len": len, "any": any, "all": all, "set": set, "int": int, "str": str, "min": min, "max": max, "abs": abs}


def _sym_match(pat, atom):
    if pat is None:
        return True
    if isinstance(pat, list):
        return any(_sym_match(p, atom) for p in pat)
    if pat.startswith("re:"):
        import re
        return re.fullmatch(pat[3:], atom) is not None
    return pat == atom


def _where(f, case):
    w = f.get("where")
    if not w:
        return True
    try:
        return bool(eval(w, _ENVF, _Env(case)))
    except Exception:
        return False


class _Env(dict):
    def __init__(self, case):
        dict.__init__(self, case)

    def __missing__(self, k):
        return _ENVF.get(k)


def rng(salt=""):
    return random.Random("%d/%s" % (SEED, salt))
