"""Reference models and helpers for chunk fitting / counting (C13, C14) and room (C07)."""
from . import common, corpus, oracle


def model_layout(c, start, lengths):
    """positions of instructions and pads under chunk fitting with chunk size c >= 2.
    Returns (list of (pad_len, pos_of_instruction), end)."""
    p = start
    out = []
    for L in lengths:
        pad = 0
        if L < c and (p % c) + L > c:
            pad = c - (p % c)
        out.append((pad, p + pad))
        p += pad + L
    return out, p


def model_count(c, start, lengths):
    p = start
    n = 0
    for L in lengths:
        if (p % c) + L > c:
            n += 1
        p += L
    return n


_nopcache = {}


def is_nop_sequence(h):
    """does this byte string decode (both decoders) as a sequence of NOP instructions exactly covering it?"""
    if h in _nopcache:
        return _nopcache[h]
    rest = h
    ok = True
    count = 0
    while rest:
        found = None
        for n in range(1, min(15, len(rest) // 2) + 1):
            st, c1, c2, info = oracle.canon_bytes(rest[:2 * n])
            if st == "ok" and c1 == ("nop",) and c2 == ("nop",):
                found = n
                break
            if st == "ok":
                break  # decodes as something else
        if not found:
            ok = False
            break
        rest = rest[2 * found:]
        count += 1
    _nopcache[h] = (ok, count)
    return _nopcache[h]


def length_catalogue(binary, rnd, per_len=2):
    """lines grouped by encoded length (plain assembly, default options): {length: [(line, hex)]}"""
    rep = corpus.representative(rnd, 2)
    lines = sorted(set(c["text"] for c in rep))
    # a 13-byte and a 15-byte instruction, and the multi-byte nops themselves as payload
    lines += ["mov qword [eax+ebx*8+0x11223344], 0x55667788", "mov rax, 0x1122334455667788", "clc", "ret", "nop", "nop7", "nop11",
              "add dword [r8d+r9d*4+0x11223344], 0x55667788", "vpaddb ymm8, ymm9, [r10+r11*8+0x11223344]",
              # the longest things the library emits (14-17 bytes; the last three carry immediates the destination cannot hold - what matters
              # here is only that the fitting / counting rules are applied to whatever length plain assembly produces)
              "mov word [r8d+r9d*8+0x11223344], 0x1122", "imul r9, [eax+ebx*8+0x11223344], 0x11223344", "shld word [r8d+r9d*8+0x11223344], r10w, 5",
              "add qword [rax+rbx*8+0x11223344], 0x1122334455", "add qword [eax+ebx*8+0x11223344], 0x1122334455", "test qword [r8d+r9d*8+0x11223344], 0x1122334455667788"]
    # relative branches of each kind: their displacement is the operand, so padding in front of them changes nothing about their bytes
    BRANCHES = ["jmp short 4", "jmp 0x1234", "call -32", "jne long 100", "xbegin 0x7fffffff", "jrcxz -5", "jb 0x7f", "call 0x12345678"]
    alone = corpus.accepted_alone(binary, lines + BRANCHES)
    by = {}
    for l, h in alone.items():
        if h and not l.startswith(("j", "call", "xbegin", "ret")):
            by.setdefault(len(h) // 2, []).append((l, h))
    cat = {}
    for L, lst in sorted(by.items()):
        lst.sort()
        cat[L] = rnd.sample(lst, min(per_len, len(lst)))
    for l in BRANCHES:
        if alone.get(l):
            cat.setdefault(len(alone[l]) // 2, []).append((l, alone[l]))
    return cat
