#!/usr/bin/env python3
"""tools/dump_corpus.py <out.json>  - assembles every distinct instruction line of /repo/test/*.asm (plus the
tap/eaf inputs) under three option masks with the library built from VERIF_REPO (default /repo) and dumps
{mask|line: [rc, bytes]}. Two dumps (before/after a source change) are compared with --diff a.json b.json."""
import glob, json, os, re, sys
sys.path.insert(0, os.path.dirname(os.path.dirname(os.path.abspath(__file__))))
if sys.argv[1] == "--diff":
    a, b = json.load(open(sys.argv[2])), json.load(open(sys.argv[3]))
    n = 0
    for k in a:
        if a[k] != b.get(k):
            n += 1
            if n <= 40:
                print("DIFF", k, a[k], "->", b.get(k))
    print("%d of %d lines differ" % (n, len(a)))
    sys.exit(1 if n else 0)
from vlib import common
lines = set()
for p in glob.glob("/repo/test/*.asm") + glob.glob("/repo/test/tap/*.tap") + glob.glob("/repo/test/eaf/*.eaf"):
    for l in open(p, errors="replace"):
        l = l.rstrip("\n")
        if l.strip() and not l.lstrip().startswith(("%", "#")):
            lines.add(l)
lines = sorted(lines)
b = common.build("plain")
out = {}
for m in ("211", "000", "111"):
    res = common.run_lines(b, [(m, l, 0) for l in lines], tag="corp")
    for l, r in zip(lines, res):
        out[m + "|" + l] = ["crash"] if "crash" in r else [r["rc"], r["bytes"] if r["rc"] == 0 else ""]
json.dump(out, open(sys.argv[1], "w"))
print(len(lines), "lines")
