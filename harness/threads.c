/*
 * threads.c - C18 workload: N threads each create / configure / assemble /
 * destroy PRIVATE instances concurrently; every result is compared with a
 * single-threaded reference computed in a forked child BEFORE any library call
 * in this process (so the very first asm_create_instance calls - the only
 * moment the global lookup tables change value - overlap in the threads).
 *
 *   threads <programs-file> <nthreads> <iterations> <seed> [stagger_us] [cold_trials]
 * cold_trials > 0: after the reference has been computed (in a forked child), <cold_trials> fresh child processes are forked,
 * none of which has ever entered the library; in each, the threads are released by a spin barrier with a per-thread delay of
 * 0..5000 ns and perform their FIRST library calls (create -> options -> assemble -> destroy) concurrently - the only moment at
 * which lazily built shared tables change. Output line: "K <trials> <ops> <mismatches>".
 * programs-file: one program per line, hex encoded text.
 * stdout: "M ..." per mismatch (first 50), then "T <threads> <iters> <ops> <mismatches>"
 */
#define _GNU_SOURCE 1
#include <assemblyline.h>
#include <pthread.h>
#include <sched.h>
#include <stdint.h>
#include <stdio.h>
#include <stdlib.h>
#include <string.h>
#include <sys/mman.h>
#include <sys/wait.h>
#include <time.h>
#include <unistd.h>

#define MAXP 512
#define NMASK 12
#define NMODE 6 /* 0 plain, 1 fitting(16), 2 counting(8), 3 fitting(24), 4 fitting(64), 5 fitting(7) */
static const int FITC[NMODE] = {0, 16, 0, 24, 64, 7}; /* threads pad with DIFFERENT chunk sizes at the same time */
#define BUFSZ 32768

static FILE *res; /* results go here (the original stdout); stdout itself is /dev/null: the library's debug output lands there */
static char *prog[MAXP];
static int nprog;

struct ref {
  int rc, off, count;
  uint64_t hash;
};
static struct ref *REF; /* [nprog][NMASK][NMODE][internal 0/1], MAP_SHARED */

#define RIDX(p, m, mode, internal) ((((p)*NMASK + (m)) * NMODE + (mode)) * 2 + ((internal) ? 1 : 0))

static uint64_t fnv(const uint8_t *b, long n) {
  uint64_t h = 1469598103934665603ULL;
  for (long i = 0; i < n; i++)
    h = (h ^ b[i]) * 1099511628211ULL;
  return h;
}

static void apply_mask(assemblyline_t al, int m, int grouped) {
  int mov = m / 4, swap = (m / 2) % 2, nobase = m % 2;
  /* the same configuration through the grouping setters where they can express it */
  if (grouped && mov == swap && swap == nobase) {
    asm_set_all(al, (enum asm_opt)mov);
    return;
  }
  asm_mov_imm(al, (enum asm_opt)mov);
  if (grouped && swap == nobase) {
    asm_sib(al, (enum asm_opt)swap);
    return;
  }
  asm_sib_index_base_swap(al, (enum asm_opt)swap);
  asm_sib_no_base(al, (enum asm_opt)nobase);
}

/* "via": the same operation through other parts of the API - every result must still equal the single-threaded reference
 *   via & 3 : 0 string entry points, 1 file entry points (a thread-private file), 2 the deprecated aliases
 *   via & 4 : options through asm_set_all / asm_sib where they can express the configuration
 *   via & 8 : debug output on during the call (stdout is /dev/null)
 *   via & 16: afterwards asm_create_bin_file to a thread-private path, read back and compared with the code
 *   via & 32: the program in two calls split at a line boundary (string entry point, plain / fitting mode)
 *   via & 64: a second live instance of the same thread with other options and another program */
static const char *tdir; /* THREADS_DIR: where the thread-private files live; unset = string entry points only */
static int big_ext_only; /* THREADS_BIG_EXT_ONLY: long programs run on caller buffers only (ThreadSanitizer does not follow mremap) */
#pragma GCC diagnostic ignored "-Wdeprecated-declarations"

static void one(int p, int m, int mode, int internal, uint8_t *buf,
                struct ref *out, unsigned *rs, int yields, int via, long id) {
  if (!tdir)
    via &= ~(3 | 16);
  if ((via & 3) == 3)
    via &= ~1;
  /* via & 64: a SECOND live instance of this thread (other options, another program) is created first, used while the main one
   * exists, and checked against its own reference */
  assemblyline_t al2 = NULL;
  int p2 = (p + 1) % nprog, m2 = (m + 5) % NMASK, comp_bad = 0;
  if ((via & 64) && !(big_ext_only && strlen(prog[p2]) > 8000)) {
    al2 = asm_create_instance(NULL, 0);
    apply_mask(al2, m2, 0);
  }
  assemblyline_t al = asm_create_instance(internal ? NULL : buf, BUFSZ);
  if (yields && (rand_r(rs) & 3) == 0)
    sched_yield();
  apply_mask(al, m, via & 4);
  if (al2) {
    int rc2 = asm_assemble_str(al2, prog[p2]);
    int off2 = asm_get_offset(al2);
    struct ref *w2 = &REF[RIDX(p2, m2, 0, 1)];
    uint64_t h2 = (rc2 == 0 && off2 >= 0) ? fnv(asm_get_code(al2), off2) : 0;
    comp_bad = rc2 != w2->rc || off2 != w2->off || h2 != w2->hash;
  }
  if (via & 8)
    asm_set_debug(al, true);
  if (FITC[mode])
    asm_set_chunk_size(al, (size_t)FITC[mode]);
  if (yields && (rand_r(rs) & 7) == 0) {
    struct timespec ts = {0, 1000 * (rand_r(rs) % 50)};
    nanosleep(&ts, NULL);
  }
  int count = -1, rc;
  char path[600];
  if ((via & 3) == 1) {
    snprintf(path, sizeof path, "%s/t%d-%ld.asm", tdir, (int)getpid(), id);
    FILE *f = fopen(path, "w");
    if (f) {
      fwrite(prog[p], 1, strlen(prog[p]), f);
      fclose(f);
    }
    rc = mode == 2 ? asm_assemble_file_counting_chunks(al, path, 8, &count) : asm_assemble_file(al, path);
    unlink(path);
  } else if (mode == 2) {
    char *copy = strdup(prog[p]);
    rc = (via & 3) == 2 ? assemble_string_counting_chunks(al, copy, 8, &count)
                        : asm_assemble_string_counting_chunks(al, copy, 8, &count);
    free(copy);
  } else if ((via & 32) && (via & 3) == 0 && strchr(prog[p], '\n')) {
    /* via & 32: the program in TWO calls, split at a line boundary near the middle (plain and fitting mode: the same code) */
    char *copy = strdup(prog[p]);
    char *cut = strchr(copy + strlen(copy) / 2, '\n');
    if (!cut)
      cut = strchr(copy, '\n');
    *cut = 0;
    rc = asm_assemble_str(al, copy);
    if (rc == 0)
      rc = asm_assemble_str(al, cut + 1);
    free(copy);
  } else
    rc = (via & 3) == 2 ? assemble_str(al, prog[p]) : asm_assemble_str(al, prog[p]);
  out->rc = rc;
  out->off = asm_get_offset(al);
  out->count = count;
  out->hash = (rc == 0 && out->off >= 0 && (internal || out->off <= BUFSZ))
                  ? fnv(asm_get_code(al), out->off)
                  : 0;
  if ((via & 16) && rc == 0 && out->off >= 0) {
    /* the binary file must hold exactly this instance's code */
    snprintf(path, sizeof path, "%s/t%d-%ld.bin", tdir, (int)getpid(), id);
    int brc = asm_create_bin_file(al, path);
    long n = -1;
    uint64_t h = 0;
    FILE *f = fopen(path, "rb");
    if (f) {
      uint8_t *tmp = malloc((size_t)out->off + 16);
      n = (long)fread(tmp, 1, (size_t)out->off + 16, f);
      fclose(f);
      h = fnv(tmp, n);
      free(tmp);
      unlink(path);
    }
    if (brc != 0 || n != out->off || h != out->hash)
      out->rc = 1000 + (brc != 0); /* shows as a mismatch with the reference */
  }
  if (yields && (rand_r(rs) & 3) == 0)
    sched_yield();
  asm_destroy_instance(al);
  if (al2) {
    /* the companion must still hold its code after the main instance has worked and gone */
    struct ref *w2 = &REF[RIDX(p2, m2, 0, 1)];
    int off2 = asm_get_offset(al2);
    if (w2->rc == 0 && (off2 != w2->off || fnv(asm_get_code(al2), off2) != w2->hash))
      comp_bad = 1;
    asm_destroy_instance(al2);
    if (comp_bad)
      out->rc = 2000;
  }
}

static pthread_barrier_t bar;
static int iters, stagger_us;
static unsigned seed0;
static long mismatches, ops;
static pthread_mutex_t mu = PTHREAD_MUTEX_INITIALIZER;

static void *worker(void *arg) {
  long id = (long)arg;
  unsigned rs = seed0 * 7919u + (unsigned)id * 104729u + 1;
  uint8_t *buf = malloc(BUFSZ);
  long mm = 0, n = 0;
  pthread_barrier_wait(&bar);
  if (stagger_us) {
    struct timespec ts = {0, 1000L * ((id * stagger_us) % 997)};
    nanosleep(&ts, NULL);
  }
  for (int it = 0; it < iters; it++) {
    int p = rand_r(&rs) % nprog, m = rand_r(&rs) % NMASK, mode = rand_r(&rs) % NMODE;
    int internal = (rand_r(&rs) & 3) == 0;
    if (big_ext_only && strlen(prog[p]) > 8000)
      internal = 0;
    int via = (rand_r(&rs) >> 3) & 127;
    if ((rand_r(&rs) & 3) != 0)
      via &= ~8; /* debug output is slow: one call in eight */
    struct ref got;
    one(p, m, mode, internal, buf, &got, &rs, 1, via, id);
    struct ref *w = &REF[RIDX(p, m, mode, internal)];
    n++;
    if (got.rc != w->rc || got.off != w->off || got.count != w->count ||
        got.hash != w->hash) {
      mm++;
      pthread_mutex_lock(&mu);
      if (mismatches + mm <= 50)
        fprintf(res, "M thread=%ld it=%d prog=%d mask=%d mode=%d via=%d got=%d/%d/%d/%016llx "
               "want=%d/%d/%d/%016llx\n",
               id, it, p, m, mode, via, got.rc, got.off, got.count,
               (unsigned long long)got.hash, w->rc, w->off, w->count,
               (unsigned long long)w->hash);
      pthread_mutex_unlock(&mu);
    }
  }
  pthread_mutex_lock(&mu);
  mismatches += mm;
  ops += n;
  pthread_mutex_unlock(&mu);
  free(buf);
  return NULL;
}

/* ---------------------------------------------------------------- cold-start trials */
#include <stdatomic.h>
static _Atomic int cold_arrived;
static int cold_n;
static long cold_delta_ns;
static long *cold_mm; /* MAP_SHARED: [0] mismatches [1] ops, written by the trial children */

static inline long now_ns(void) {
  struct timespec ts;
  clock_gettime(CLOCK_MONOTONIC, &ts);
  return ts.tv_sec * 1000000000L + ts.tv_nsec;
}

static void *cold_worker(void *arg) {
  long id = (long)arg;
  unsigned rs = seed0 * 31u + (unsigned)id * 977u + (unsigned)cold_delta_ns;
  /* first-call costs that are not the library's: stack pages, this thread's malloc arena */
  volatile char pad[8192];
  for (int i = 0; i < 8192; i += 512)
    pad[i] = 1;
  uint8_t *buf = malloc(BUFSZ);
  memset(buf, 0xCC, BUFSZ);
  int p = rand_r(&rs) % nprog, m = rand_r(&rs) % NMASK, mode = rand_r(&rs) % NMODE;
  atomic_fetch_add(&cold_arrived, 1);
  while (atomic_load(&cold_arrived) < cold_n)
    ;
  long t0 = now_ns();
  while (now_ns() - t0 < id * cold_delta_ns)
    ;
  long mm = 0, n = 0;
  for (int it = 0; it < 3; it++) {
    struct ref got;
    int via = (rand_r(&rs) >> 3) & (23 | 32 | 64); /* no debug output here: the first library call is what matters */
    int cin = it == 1 && !(big_ext_only && strlen(prog[p]) > 8000);
    one(p, m, mode, cin, buf, &got, &rs, 0, via, id);
    struct ref *w = &REF[RIDX(p, m, mode, cin)];
    n++;
    if (got.rc != w->rc || got.off != w->off || got.count != w->count || got.hash != w->hash) {
      mm++;
      pthread_mutex_lock(&mu);
      if (__atomic_load_n(&cold_mm[0], __ATOMIC_RELAXED) + mm <= 10)
        fprintf(res, "M cold thread=%ld it=%d prog=%d mask=%d mode=%d delta=%ldns got=%d/%d/%d/%016llx want=%d/%d/%d/%016llx\n", id, it, p, m, mode,
               cold_delta_ns, got.rc, got.off, got.count, (unsigned long long)got.hash, w->rc, w->off, w->count,
               (unsigned long long)w->hash);
      pthread_mutex_unlock(&mu);
    }
    p = rand_r(&rs) % nprog;
    m = rand_r(&rs) % NMASK;
    mode = rand_r(&rs) % NMODE;
  }
  __atomic_fetch_add(&cold_mm[0], mm, __ATOMIC_RELAXED);
  __atomic_fetch_add(&cold_mm[1], n, __ATOMIC_RELAXED);
  free(buf);
  return NULL;
}

static void cold_trials(int trials, int nthreads) {
  static const long DELTAS[] = {0, 50, 100, 200, 400, 800, 1500, 5000};
  cold_mm = mmap(NULL, 4096, PROT_READ | PROT_WRITE, MAP_SHARED | MAP_ANONYMOUS, -1, 0);
  int done = 0;
  for (int t = 0; t < trials; t++) {
    fflush(res);
    pid_t pid = fork();
    if (pid == 0) {
      cold_n = 2 + (t % (nthreads > 2 ? nthreads - 1 : 1));
      if (cold_n > 16)
        cold_n = 16;
      cold_delta_ns = DELTAS[(t / 3) % 8];
      seed0 = seed0 * 131u + (unsigned)t;
      atomic_store(&cold_arrived, 0);
      pthread_t th[16];
      for (long i = 0; i < cold_n; i++)
        pthread_create(&th[i], NULL, cold_worker, (void *)i);
      for (int i = 0; i < cold_n; i++)
        pthread_join(th[i], NULL);
      fflush(res);
      _exit(0);
    }
    if (pid < 0) { /* fork refused (process limit, memory): not a verdict about the library, the trial is not counted */
      usleep(1000);
      continue;
    }
    int st = 0;
    waitpid(pid, &st, 0);
    if (!WIFEXITED(st) || WEXITSTATUS(st) != 0) {
      fprintf(res, "E cold trial %d died: status %d\n", t, st);
      __atomic_fetch_add(&cold_mm[0], 1, __ATOMIC_RELAXED);
    }
    done++;
  }
  fprintf(res, "K %d %ld %ld\n", done, cold_mm[1], cold_mm[0]);
}

/* ---------------------------------------------------------------- gap trials
 * A victim thread assembles a program on an instance, destroys it, and assembles the same text again on a NEW instance with
 * other options. In between, two neighbour threads perform an EXACT number D of library calls of one kind on their own instances
 * (option setter calls, or create + destroy pairs). D sweeps through 2^8, 2^15, 2^16, 2^17 -16 .. +16: anything process-wide that
 * counts calls in a narrow type and is consulted by another thread's instance shows at one of these gaps. Results are compared
 * with the single-threaded reference. */
static pthread_barrier_t gbar;
static long gap_d;
static int gap_kind, gap_stop;

static void *gap_neighbour(void *arg) {
  long id = (long)arg;
  assemblyline_t al = asm_create_instance(NULL, 0);
  for (;;) {
    pthread_barrier_wait(&gbar); /* trial start: gap_d, gap_kind are set */
    if (gap_stop)
      break;
    long mine = gap_d / 2 + (id == 0 ? gap_d % 2 : 0);
    if (gap_kind == 0)
      for (long i = 0; i < mine; i++)
        asm_mov_imm(al, (enum asm_opt)(i & 1));
    else if (gap_kind == 1)
      for (long i = 0; i < mine; i++)
        asm_destroy_instance(asm_create_instance(NULL, 0));
    else
      for (long i = 0; i < mine; i++)
        asm_sib(al, (enum asm_opt)(i & 1));
    pthread_barrier_wait(&gbar); /* neighbours done */
  }
  asm_destroy_instance(al);
  return NULL;
}

static void gap_trials(void) {
  static const long BASES[] = {256, 32768, 65536, 131072};
  pthread_barrier_init(&gbar, NULL, 3);
  pthread_t nb[2];
  for (long i = 0; i < 2; i++)
    pthread_create(&nb[i], NULL, gap_neighbour, (void *)i);
  uint8_t *buf = malloc(BUFSZ);
  unsigned rs = seed0 + 17;
  long trials = 0, mm = 0;
  for (int b = 0; b < 4; b++)
    for (long d = -16; d <= 16; d++)
      for (int kind = 0; kind < 3; kind++) {
        if (kind == 1 && BASES[b] > 65536 && (d & 3))
          continue; /* create + destroy pairs are slower: fewer of the long ones */
        /* program 0 of the list consists of option-sensitive lines: the two uses differ in their bytes */
        int p = 0, mA = rand_r(&rs) % NMASK, mB = (mA + 1 + rand_r(&rs) % (NMASK - 1)) % NMASK;
        struct ref got;
        one(p, mA, 0, 1, buf, &got, &rs, 0, 0, 99);
        gap_d = BASES[b] + d;
        gap_kind = kind;
        pthread_barrier_wait(&gbar);
        pthread_barrier_wait(&gbar);
        one(p, mB, 0, 1, buf, &got, &rs, 0, 0, 99);
        struct ref *w = &REF[RIDX(p, mB, 0, 1)];
        trials++;
        if (got.rc != w->rc || got.off != w->off || got.hash != w->hash) {
          mm++;
          if (mm <= 10)
            fprintf(res, "M gap D=%ld kind=%d prog=%d maskA=%d maskB=%d got=%d/%d/%016llx want=%d/%d/%016llx\n", gap_d, kind, p, mA, mB, got.rc, got.off,
                    (unsigned long long)got.hash, w->rc, w->off, (unsigned long long)w->hash);
        }
      }
  gap_stop = 1;
  pthread_barrier_wait(&gbar);
  for (int i = 0; i < 2; i++)
    pthread_join(nb[i], NULL);
  free(buf);
  mismatches += mm;
  ops += trials;
  fprintf(res, "G %ld %ld\n", trials, mm);
}

static int unhex(const char *h, char **out) {
  size_t n = strlen(h);
  char *b = malloc(n / 2 + 1);
  for (size_t i = 0; i + 1 < n; i += 2) {
    int hi = h[i], lo = h[i + 1];
    hi = hi <= '9' ? hi - '0' : (hi | 32) - 'a' + 10;
    lo = lo <= '9' ? lo - '0' : (lo | 32) - 'a' + 10;
    if ((hi | lo) & ~15) {
      free(b);
      return -1;
    }
    b[i / 2] = (char)(hi << 4 | lo);
  }
  b[n / 2] = 0;
  *out = b;
  return 0;
}

int main(int argc, char **argv) {
  if (argc < 5)
    return 2;
  res = fdopen(dup(1), "w");
  if (!res || !freopen("/dev/null", "w", stdout))
    return 2;
  tdir = getenv("THREADS_DIR");
  big_ext_only = getenv("THREADS_BIG_EXT_ONLY") != NULL;
  FILE *f = fopen(argv[1], "r");
  if (!f)
    return 2;
  char *line = NULL;
  size_t cap = 0;
  ssize_t len;
  while ((len = getline(&line, &cap, f)) > 0 && nprog < MAXP) {
    while (len > 0 && (line[len - 1] == '\n' || line[len - 1] == '\r'))
      line[--len] = 0;
    if (len && !unhex(line, &prog[nprog]))
      nprog++;
  }
  fclose(f);
  int nthreads = atoi(argv[2]);
  iters = atoi(argv[3]);
  seed0 = (unsigned)atoi(argv[4]);
  stagger_us = argc > 5 ? atoi(argv[5]) : 0;
  /* stderr of the library (diagnostics of rejected lines) is noise here */
  size_t sz = sizeof(struct ref) * (size_t)nprog * NMASK * NMODE * 2;
  REF = mmap(NULL, sz, PROT_READ | PROT_WRITE, MAP_SHARED | MAP_ANONYMOUS, -1, 0);
  fflush(res);
  /* THREADS_REF_FILE: the single-threaded reference table is computed once (by an uninstrumented build of the same sources: under
   * ThreadSanitizer it costs more than the threaded run itself) and loaded by every run; without the variable, or if the file does
   * not fit this program list, it is computed here in a forked child */
  const char *rf = getenv("THREADS_REF_FILE");
  long hdr[4] = {nprog, NMASK, NMODE, BUFSZ}, got[4] = {0, 0, 0, 0};
  int loaded = 0, st = 0;
  if (rf) {
    FILE *fr = fopen(rf, "rb");
    if (fr) {
      loaded = fread(got, sizeof got, 1, fr) == 1 && !memcmp(got, hdr, sizeof hdr) && fread(REF, 1, sz, fr) == sz;
      fclose(fr);
    }
  }
  if (!loaded) {
    pid_t pid = fork();
    if (pid == 0) {
      unsigned rs = 1;
      uint8_t *buf = malloc(BUFSZ);
      for (int p = 0; p < nprog; p++)
        for (int m = 0; m < NMASK; m++)
          for (int mode = 0; mode < NMODE; mode++)
            for (int in = 0; in < 2; in++)
              one(p, m, mode, in, buf, &REF[RIDX(p, m, mode, in)], &rs, 0, 0, 0);
      _exit(0);
    }
    waitpid(pid, &st, 0);
    if (!WIFEXITED(st) || WEXITSTATUS(st) != 0) {
      fprintf(res, "E reference child failed %d\n", st);
      return 3;
    }
    if (rf && getenv("THREADS_REF_SAVE")) {
      FILE *fw = fopen(rf, "wb");
      if (fw) {
        fwrite(hdr, sizeof hdr, 1, fw);
        fwrite(REF, 1, sz, fw);
        fclose(fw);
      }
    }
  }
  int ncold = argc > 6 ? atoi(argv[6]) : 0;
  if (ncold > 0) {
    /* this process has not entered the library yet (the reference was computed in the forked child above) */
    cold_trials(ncold, nthreads);
    if (iters <= 0) {
      fprintf(res, "T %d %d %d %d %ld\n", nthreads, 0, 0, 0, 0L);
      return 0;
    }
  }
  if (getenv("THREADS_GAP")) /* (a few runs per build flavour only: 360 trials of up to 131 072 calls each) */
    gap_trials();
  pthread_barrier_init(&bar, NULL, (unsigned)nthreads);
  pthread_t th[64];
  for (long i = 0; i < nthreads; i++)
    pthread_create(&th[i], NULL, worker, (void *)i);
  for (int i = 0; i < nthreads; i++)
    pthread_join(th[i], NULL);
  long okrefs = 0;
  for (int i = 0; i < nprog * NMASK * NMODE * 2; i++)
    okrefs += REF[i].rc == 0;
  fprintf(res, "T %d %d %ld %ld %ld\n", nthreads, iters, ops, mismatches, okrefs);
  fflush(res);
  return 0;
}
