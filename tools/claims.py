NOT_YET = {}
CLAIMS = {
 "C01": {"technique": "runtime round-trip monitor: ASan+UBSan build driven over the exhaustive register-tuple space, bytes judged by two independent decoders against a nasm-validated expectation",
         "text": "Every register-only integer form of the committed spec x every register tuple x option combos is assembled by the real library under ASan+UBSan; each emitted encoding is decoded by LLVM-MC and libopcodes and must read back as the written instruction with length == offset advance. Exhaustive over that finite space in the thorough tier (quick: all tuples under default options + sampled combos). Exploration level: nothing is proved beyond the executed cases.",
         "note": "Trusts LLVM-MC/libopcodes where nasm's own encoding of the same line validates them (per case); CPU semantics not re-checked."},
}
