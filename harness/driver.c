/*
 * driver.c - replayable API-script interpreter for libassemblyline.
 *
 *   driver <script> <records-out>
 *
 * The script is line oriented (see DESIGN.md 2.2).  Every command produces one
 * record line in <records-out>.  The driver judges nothing except guard
 * integrity; all oracles run offline over the record log.
 *
 * A crash (signal or sanitizer death) appends "X <case> <cmdidx> <what>" and
 * exits 99 so the python side can resume after the offending case.
 */
#define _GNU_SOURCE 1
#include <assemblyline.h>
#include <errno.h>
#include <fcntl.h>
#include <signal.h>
#include <stdarg.h>
#include <stdint.h>
#include <stdio.h>
#include <stdlib.h>
#include <string.h>
#include <grp.h>
#include <sys/mman.h>
#include <sys/stat.h>
#include <sys/wait.h>
#include <unistd.h>

#if defined(__SANITIZE_ADDRESS__)
#define HAVE_ASAN 1
#endif
#if defined(__has_feature)
#if __has_feature(address_sanitizer)
#define HAVE_ASAN 1
#endif
#endif

#define MAXI 16
#define PAGE 4096
#define CANARY 0xA5

/* ---------------------------------------------------------------- output */
static int out_fd = 1;
static char obuf[1 << 16];
static size_t olen;
static void oflush(void) {
  size_t o = 0;
  while (o < olen) {
    ssize_t w = write(out_fd, obuf + o, olen - o);
    if (w <= 0)
      break;
    o += (size_t)w;
  }
  olen = 0;
}
static void oputs(const char *s) {
  size_t n = strlen(s);
  if (olen + n > sizeof obuf)
    oflush();
  if (n > sizeof obuf) {
    (void)!write(out_fd, s, n);
    return;
  }
  memcpy(obuf + olen, s, n);
  olen += n;
}
static void oprintf(const char *fmt, ...) {
  char tmp[512];
  va_list ap;
  va_start(ap, fmt);
  vsnprintf(tmp, sizeof tmp, fmt, ap);
  va_end(ap);
  oputs(tmp);
}
static const char HEX[] = "0123456789abcdef";
static void ohex(const uint8_t *p, size_t n) {
  char tmp[256];
  size_t k = 0;
  if (n == 0) {
    oputs("-");
    return;
  }
  for (size_t i = 0; i < n; i++) {
    tmp[k++] = HEX[p[i] >> 4];
    tmp[k++] = HEX[p[i] & 15];
    if (k >= sizeof tmp - 2) {
      tmp[k] = 0;
      oputs(tmp);
      k = 0;
    }
  }
  tmp[k] = 0;
  oputs(tmp);
}

/* ------------------------------------------------------- crash reporting */
static volatile long cur_case = -1;
static volatile long cur_cmd = -1;

/* The handlers run while the interrupted code may be anywhere - also inside a sanitizer report that holds the report lock.
 * They are therefore not instrumented (no fake-stack allocation, no checks that could fault and re-enter the runtime). */
#define NOSAN __attribute__((no_sanitize_address, no_sanitize_undefined, noinline))
NOSAN static void crash_record(const char *what, unsigned long addr) {
  char tmp[160];
  int n = snprintf(tmp, sizeof tmp, "X %ld %ld %s 0x%lx\n", cur_case, cur_cmd,
                   what, addr);
  oflush();
  (void)!write(out_fd, tmp, (size_t)n);
}

/* address classification for guarded buffers (relative to the buffer) */
struct inst;
static const char *classify(unsigned long addr, long *rel);

NOSAN static void on_signal(int sig, siginfo_t *si, void *ctx) {
  (void)ctx;
  char what[96];
  long rel = 0;
  const char *cls = "";
  if (sig == SIGSEGV || sig == SIGBUS)
    cls = classify((unsigned long)si->si_addr, &rel);
  snprintf(what, sizeof what, "signal=%d%s%s rel=%ld", sig, cls[0] ? " at=" : "",
           cls, rel);
  crash_record(what, (unsigned long)si->si_addr);
  _exit(99);
}
NOSAN static void on_alarm(int sig) {
  (void)sig;
  crash_record("hang", 0);
  _exit(98);
}
#ifdef HAVE_ASAN
void __sanitizer_set_death_callback(void (*cb)(void));
static void on_san_death(void) { crash_record("sanitizer", 0); }
#endif

extern void wrap_cmd(const char *sub, const char *a, const char *b); /* wrap.c */
extern void wrap_report(void (*pr)(const char *));
#ifdef USE_WRAP
extern volatile int wrap_in_api;
#else
static volatile int wrap_in_api;
void wrap_cmd(const char *sub, const char *a, const char *b) {
  (void)sub;
  (void)a;
  (void)b;
}
void wrap_report(void (*pr)(const char *)) { (void)pr; }
#endif

/* ------------------------------------------------------------- instances */
struct inst {
  assemblyline_t al;
  int ext;        /* caller buffer? */
  uint8_t *map;   /* whole mapping (guard + slack) or heap block */
  size_t maplen;
  uint8_t *buf;   /* caller buffer start */
  long n;         /* caller buffer length */
  char place;     /* L R H */
  uint8_t fill;
  long last_before; /* offset at which the last assemble call started */
  long hiwater;   /* library-managed buffer: the highest offset a successful
                     call has returned - the harness reads nothing beyond it */
};
static struct inst I[MAXI];

static const char *classify(unsigned long addr, long *rel) {
  for (int i = 0; i < MAXI; i++) {
    if (!I[i].al || !I[i].ext || I[i].place == 'H')
      continue;
    unsigned long lo = (unsigned long)I[i].map, hi = lo + I[i].maplen;
    if (addr >= lo - 16 * PAGE && addr < hi + 16 * PAGE) {
      *rel = (long)(addr - (unsigned long)I[i].buf);
      return "extbuf";
    }
  }
  /* far wild write: report relative to instance 0's buffer if any */
  for (int i = 0; i < MAXI; i++)
    if (I[i].al && I[i].ext) {
      *rel = (long)(addr - (unsigned long)I[i].buf);
      return "wild";
    }
  *rel = 0;
  return "other";
}

static uint8_t *prefix_snap;
static size_t prefix_cap;

static int unhex(const char *h, char **out, size_t *outlen) {
  size_t n = strlen(h);
  if (n == 1 && h[0] == '-')
    n = 0;
  char *b = malloc(n / 2 + 1);
  for (size_t i = 0; i + 1 < n; i += 2) {
    int hi = h[i], lo = h[i + 1];
    hi = hi <= '9' ? hi - '0' : (hi | 32) - 'a' + 10;
    lo = lo <= '9' ? lo - '0' : (lo | 32) - 'a' + 10;
    if ((hi | lo) & ~15) {
      free(b);
      return -1;
    }
    b[i / 2] = (char)(hi << 4 | lo);
  }
  b[n / 2] = 0;
  *out = b;
  *outlen = n / 2;
  return 0;
}

static void free_inst(int id) {
  struct inst *x = &I[id];
  if (!x->al)
    return;
  wrap_in_api = 1;
  asm_destroy_instance(x->al);
  wrap_in_api = 0;
  if (x->ext) {
    if (x->place == 'H')
      free(x->map);
    else
      munmap(x->map, x->maplen);
  }
  memset(x, 0, sizeof *x);
}

/* create a caller buffer of n bytes.
 *  R: buffer ends at a PROT_NONE page, canary in front of it
 *  L: buffer starts right after a PROT_NONE page, canary behind it
 *  H: plain malloc (ASan redzones, byte exact) */
static int make_ext(struct inst *x, long n, char place, uint8_t fill) {
  x->ext = 1;
  x->n = n;
  x->place = place;
  x->fill = fill;
  if (place == 'H') {
    x->map = malloc(n > 0 ? (size_t)n : 1);
    x->maplen = (size_t)n;
    x->buf = x->map;
    if (n > 0)
      memset(x->buf, fill, (size_t)n);
    return 0;
  }
  size_t data = ((size_t)n + PAGE - 1) / PAGE * PAGE + PAGE; /* >= 1 page slack */
  x->maplen = data + 2 * PAGE;
  x->map = mmap(NULL, x->maplen, PROT_READ | PROT_WRITE | PROT_EXEC,
                MAP_PRIVATE | MAP_ANONYMOUS, -1, 0);
  if (x->map == MAP_FAILED)
    return -1;
  memset(x->map, CANARY, x->maplen);
  mprotect(x->map, PAGE, PROT_NONE);
  mprotect(x->map + PAGE + data, PAGE, PROT_NONE);
  if (place == 'R')
    x->buf = x->map + PAGE + data - n;
  else
    x->buf = x->map + PAGE;
  if (n > 0)
    memset(x->buf, fill, (size_t)n);
  return 0;
}

/* returns number of damaged canary bytes, first damaged rel offset in *first */
static long check_canary(struct inst *x, long *first) {
  long bad = 0;
  *first = 0;
  if (!x->ext || x->place == 'H')
    return 0;
  uint8_t *lo = x->map + PAGE, *hi = x->map + x->maplen - PAGE;
  for (uint8_t *p = lo; p < hi; p++) {
    if (p >= x->buf && p < x->buf + x->n)
      continue;
    if (*p != CANARY) {
      if (!bad)
        *first = (long)(p - x->buf);
      bad++;
    }
  }
  return bad;
}

/* ------------------------------------------------------------------ exec */
static uint64_t call_code(void *fn, uint64_t *args) {
  uint64_t ret;
  register uint64_t a0 __asm__("rdi") = args[0];
  register uint64_t a1 __asm__("rsi") = args[1];
  register uint64_t a2 __asm__("rdx") = args[2];
  register uint64_t a3 __asm__("rcx") = args[3];
  register uint64_t a4 __asm__("r8") = args[4];
  register uint64_t a5 __asm__("r9") = args[5];
  __asm__ volatile("push %%rbp\n\t"
                   "push %%rbx\n\t"
                   "call *%%rax\n\t"
                   "pop %%rbx\n\t"
                   "pop %%rbp\n\t"
                   : "=a"(ret), "+r"(a0), "+r"(a1), "+r"(a2), "+r"(a3),
                     "+r"(a4), "+r"(a5)
                   : "0"(fn)
                   : "r10", "r11", "r12", "r13", "r14", "r15", "memory", "cc");
  return ret;
}

static void do_exec(struct inst *x) {
  int p[2];
  if (pipe(p)) {
    oputs("E pipe\n");
    return;
  }
  oflush();
  pid_t pid = fork();
  if (pid == 0) {
    signal(SIGSEGV, SIG_DFL);
    signal(SIGBUS, SIG_DFL);
    signal(SIGILL, SIG_DFL);
    signal(SIGFPE, SIG_DFL);
    signal(SIGABRT, SIG_DFL);
    signal(SIGTRAP, SIG_DFL);
    alarm(5);
    static uint64_t mem[6][16];
    uint64_t args[6];
    for (int i = 0; i < 6; i++) {
      for (int j = 0; j < 16; j++)
        mem[i][j] = 0x1111111111111111ULL * (unsigned)(i + 1) + (unsigned)j;
      args[i] = (uint64_t)mem[i];
    }
    uint64_t r = call_code(asm_get_code(x->al), args);
    (void)!write(p[1], &r, sizeof r);
    _exit(0);
  }
  close(p[1]);
  uint64_t r = 0;
  ssize_t got = read(p[0], &r, sizeof r);
  close(p[0]);
  int st = 0;
  waitpid(pid, &st, 0);
  if (got == (ssize_t)sizeof r && WIFEXITED(st) && WEXITSTATUS(st) == 0)
    oprintf("V ok 0x%llx\n", (unsigned long long)r);
  else if (WIFSIGNALED(st))
    oprintf("V sig %d\n", WTERMSIG(st));
  else
    oprintf("V bad %d\n", st);
}

/* ------------------------------------------------------------- fast path */
#define LBUF 320
static uint8_t *lbuf; /* reusable line buffer, 0xCC filled */

static void apply_mask(assemblyline_t al, const char *m) {
  /* m = "<mov><swap><nobase>", digits 0=STRICT 1=NASM 2=SMART, '-' = leave */
  if (m[0] >= '0' && m[0] <= '2')
    asm_mov_imm(al, (enum asm_opt)(m[0] - '0'));
  if (m[1] >= '0' && m[1] <= '2')
    asm_sib_index_base_swap(al, (enum asm_opt)(m[1] - '0'));
  if (m[2] >= '0' && m[2] <= '2')
    asm_sib_no_base(al, (enum asm_opt)(m[2] - '0'));
}

static void do_line(const char *mask, const char *hextext, long start) {
  char *text;
  size_t tl;
  if (unhex(hextext, &text, &tl)) {
    oputs("E hex\n");
    return;
  }
  memset(lbuf, 0xCC, LBUF);
  assemblyline_t al = asm_create_instance(lbuf, LBUF);
  apply_mask(al, mask);
  asm_set_offset(al, (int)start);
  int rc = asm_assemble_str(al, text);
  int off = asm_get_offset(al);
  /* dirty extent */
  long lo = -1, hi = -1;
  for (long i = 0; i < LBUF; i++)
    if (lbuf[i] != 0xCC) {
      if (lo < 0)
        lo = i;
      hi = i;
    }
  oprintf("L %d %d %ld %ld ", rc, off, lo, hi);
  if (rc == 0 && off >= start && off <= LBUF)
    ohex(lbuf + start, (size_t)(off - start));
  else if (lo >= 0)
    ohex(lbuf + lo, (size_t)(hi - lo + 1));
  else
    oputs("-");
  oputs("\n");
  asm_destroy_instance(al);
  free(text);
}

#ifdef HAVE_POKE
int poke_cmd(const char *row, const char *idx, const char *val, char *out, size_t outlen);
#endif
/* ------------------------------------------------------------------ main */
static void reset_all(void) {
  for (int i = 0; i < MAXI; i++)
    free_inst(i);
}

static void pr_line(const char *s) { oputs(s); }

/* is every page of [p, p+n) mapped?  (mincore fails with ENOMEM otherwise) */
static int range_mapped(const uint8_t *p, size_t n) {
  uintptr_t a = (uintptr_t)p & ~(uintptr_t)4095;
  size_t len = (uintptr_t)p + n - a;
  unsigned char vec[64];
  while (len > 0) {
    size_t part = len > 64 * 4096 ? 64 * 4096 : len;
    if (mincore((void *)a, part, vec) != 0)
      return 0;
    a += part;
    len -= part;
  }
  return 1;
}

int main(int argc, char **argv) {
  if (argc < 3) {
    fprintf(stderr, "usage: driver <script> <records>\n");
    return 2;
  }
  FILE *in = fopen(argv[1], "r");
  if (!in) {
    perror("script");
    return 2;
  }
  out_fd = open(argv[2], O_WRONLY | O_CREAT | O_TRUNC, 0644);
  if (out_fd < 0) {
    perror("records");
    return 2;
  }
  lbuf = malloc(LBUF);

  struct sigaction sa;
  memset(&sa, 0, sizeof sa);
  sa.sa_sigaction = on_signal;
  sa.sa_flags = SA_SIGINFO | SA_NODEFER;
#ifndef HAVE_ASAN
  sigaction(SIGSEGV, &sa, NULL);
  sigaction(SIGBUS, &sa, NULL);
  sigaction(SIGABRT, &sa, NULL);
#endif
  sigaction(SIGFPE, &sa, NULL);
  sigaction(SIGILL, &sa, NULL);
  signal(SIGALRM, on_alarm);
#ifdef HAVE_ASAN
  __sanitizer_set_death_callback(on_san_death);
#endif

  char *line = NULL;
  size_t cap = 0;
  ssize_t len;
  unsigned watchdog = 20;
  while (oflush(), (len = getline(&line, &cap, in)) > 0) {
    while (len > 0 && (line[len - 1] == '\n' || line[len - 1] == '\r'))
      line[--len] = 0;
    if (!len || line[0] == '#')
      continue;
    cur_cmd++;
    /* split into up to 6 tokens; the last token keeps the rest */
    char *tok[7] = {0};
    int nt = 0;
    char *p = line;
    while (nt < 6 && *p) {
      while (*p == ' ')
        p++;
      if (!*p)
        break;
      tok[nt++] = p;
      while (*p && *p != ' ')
        p++;
      if (*p)
        *p++ = 0;
    }
    const char *c = tok[0];
    if (!c)
      continue;
    if (!strcmp(c, "case")) {
      reset_all();
      cur_case = atol(tok[1]);
      cur_cmd = 0;
      alarm(watchdog);
      oprintf("C %ld\n", cur_case);
      continue;
    }
    if (!strcmp(c, "watchdog")) {
      watchdog = (unsigned)atoi(tok[1]);
      alarm(watchdog); /* (also re-arms the period that is running: a case that needs longer announces it first) */
      oputs("W\n");
      continue;
    }
    if (!strcmp(c, "line")) {
      alarm(watchdog); /* per line: a hang costs one watchdog period, not the rest of the case */
      do_line(tok[1], tok[2], tok[3] ? atol(tok[3]) : 0);
      continue;
    }
#ifdef HAVE_POKE
    if (!strcmp(c, "poke")) { /* tools/table_mutants.py only */
      char kb[400];
      poke_cmd(tok[1], tok[2], tok[3], kb, sizeof kb);
      oprintf("%s\n", kb);
      continue;
    }
#endif
    if (!strcmp(c, "wrap")) {
      wrap_cmd(tok[1], tok[2], tok[3]);
      oputs("W\n");
      continue;
    }
    if (!strcmp(c, "wrapreport")) {
      wrap_report(pr_line);
      continue;
    }
    int id = tok[1] ? atoi(tok[1]) : 0;
    if (id < 0 || id >= MAXI) {
      oputs("E id\n");
      continue;
    }
    struct inst *x = &I[id];
    if (!strcmp(c, "new")) {
      free_inst(id);
      if (!strcmp(tok[2], "int")) {
        wrap_in_api = 1;
        x->al = asm_create_instance(NULL, 0);
        wrap_in_api = 0;
        x->ext = 0;
      } else {
        long n = atol(tok[3]);
        char place = tok[4] ? tok[4][0] : 'R';
        uint8_t fill = tok[5] ? (uint8_t)strtoul(tok[5], NULL, 0) : 0xCC;
        if (make_ext(x, n, place, fill)) {
          oputs("E map\n");
          continue;
        }
        wrap_in_api = 1;
        x->al = asm_create_instance(x->buf, (int)n);
        wrap_in_api = 0;
        if (!x->al) {
          if (place == 'H')
            free(x->map);
          else
            munmap(x->map, x->maplen);
          memset(x, 0, sizeof *x);
        }
      }
      oprintf("N %d\n", x->al ? 1 : 0);
      continue;
    }
    if (!x->al) {
      oputs("E noinst\n");
      continue;
    }
    if (!strcmp(c, "opt")) {
      int v = atoi(tok[3]);
      const char *w = tok[2];
      if (!strcmp(w, "mov"))
        asm_mov_imm(x->al, (enum asm_opt)v);
      else if (!strcmp(w, "swap"))
        asm_sib_index_base_swap(x->al, (enum asm_opt)v);
      else if (!strcmp(w, "nobase"))
        asm_sib_no_base(x->al, (enum asm_opt)v);
      else if (!strcmp(w, "sib"))
        asm_sib(x->al, (enum asm_opt)v);
      else if (!strcmp(w, "all"))
        asm_set_all(x->al, (enum asm_opt)v);
      else if (!strcmp(w, "mask"))
        apply_mask(x->al, tok[3]);
      oputs("O\n");
    } else if (!strcmp(c, "chunk")) {
      asm_set_chunk_size(x->al, (size_t)strtoull(tok[2], NULL, 0));
      oputs("O\n");
    } else if (!strcmp(c, "debug")) {
      asm_set_debug(x->al, atoi(tok[2]) != 0);
      oputs("O\n");
    } else if (!strcmp(c, "errno")) {
      /* the ambient errno of the calling thread is process history too: a call's result must not depend on it */
      errno = atoi(tok[2]);
      oputs("O\n");
    } else if (!strcmp(c, "setoff")) {
      asm_set_offset(x->al, atoi(tok[2]));
      oputs("O\n");
    } else if (!strcmp(c, "dropuid")) {
      /* dropuid <id> <uid>: the rest of the script runs as another (unprivileged) user: files are then read by someone who is
       * not their owner and has no capabilities (the checks themselves run as root, for whom no file is unreadable) */
      uid_t u = (uid_t)atol(tok[2]);
      int r = 0;
      if (geteuid() != u) { /* (an earlier case of the same process may have dropped already) */
        r = setgroups(0, NULL);
        r |= setresgid(u, u, u);
        r |= setresuid(u, u, u);
      }
      oprintf("U %d %d\n", r, (int)geteuid());
    } else if (!strcmp(c, "getcode")) {
      /* the getters: asm_get_code, asm_get_offset and the deprecated asm_get_buffer - they are pure (nothing may be written) */
      uint8_t *b1 = asm_get_code(x->al);
      int o1 = asm_get_offset(x->al);
      uint8_t *b2 = asm_get_buffer(x->al);
      long first = 0, can = x->ext ? check_canary(x, &first) : 0;
      oprintf("C %d %d %ld %ld\n", b1 == b2 && (!x->ext || b1 == x->buf), o1, can, first);
    } else if (!strcmp(c, "setoffcur")) {
      /* asm_set_offset to what asm_get_offset reports right now (also -1 after a failed call) */
      asm_set_offset(x->al, asm_get_offset(x->al));
      oputs("O\n");
    } else if (!strcmp(c, "setoffprev")) {
      /* asm_set_offset to where the last assemble call on this instance started (what a caller does to retry / overwrite) */
      asm_set_offset(x->al, (int)x->last_before);
      oputs("O\n");
    } else if (!strcmp(c, "getoff")) {
      oprintf("G %d\n", asm_get_offset(x->al));
    } else if (!strcmp(c, "asm") || !strcmp(c, "cnt") || !strcmp(c, "file") ||
               !strcmp(c, "filecnt") || !strcmp(c, "asmold") || !strcmp(c, "cntold") ||
               !strcmp(c, "fileold")) {
      /* the "...old" commands go through the deprecated aliases of the public header (assemble_str,
       * assemble_string_counting_chunks, assemble_file): they must behave exactly like the asm_ names */
      int old = strlen(c) > 3 && !strcmp(c + strlen(c) - 3, "old");
      int counting = c[0] == 'c' || !strcmp(c, "filecnt");
      int isfile = c[0] == 'f';
      const char *arg = counting ? tok[3] : tok[2];
      int chunk = counting ? atoi(tok[2]) : 0;
      char *text = NULL;
      size_t tl = 0;
      if (isfile && arg && !strncmp(arg, "hex:", 4)) {
        /* a path with blanks or other bytes the script format cannot carry */
        if (unhex(arg + 4, &text, &tl)) {
          oputs("E hex\n");
          continue;
        }
      } else if (isfile)
        text = strdup(arg);
      else if (unhex(arg ? arg : "-", &text, &tl)) {
        oputs("E hex\n");
        continue;
      }
      int before = asm_get_offset(x->al);
      x->last_before = before;
      /* snapshot [0,before) of a caller buffer */
      long snap = 0;
      if (x->ext && before > 0 && before <= x->n) {
        snap = before;
        if ((size_t)snap > prefix_cap) {
          prefix_snap = realloc(prefix_snap, (size_t)snap);
          prefix_cap = (size_t)snap;
        }
        memcpy(prefix_snap, x->buf, (size_t)snap);
      }
      int dest = -777, rc;
      wrap_in_api = 1;
      if (old && isfile)
        rc = assemble_file(x->al, text);
      else if (old)
        rc = counting ? assemble_string_counting_chunks(x->al, text, chunk, &dest)
                      : assemble_str(x->al, text);
      else if (isfile)
        rc = counting ? asm_assemble_file_counting_chunks(x->al, text, chunk,
                                                          &dest)
                      : asm_assemble_file(x->al, text);
      else
        rc = counting ? asm_assemble_string_counting_chunks(x->al, text, chunk,
                                                            &dest)
                      : asm_assemble_str(x->al, text);
      if (old && asm_get_buffer(x->al) != (uint8_t *)asm_get_code(x->al)) {
        oputs("E asm_get_buffer != asm_get_code\n");
        continue;
      }
      wrap_in_api = 0;
      int after = asm_get_offset(x->al);
      if (rc == 0 && after > before && after > x->hiwater)
        x->hiwater = after; /* (a call that emitted nothing proves nothing about the mapping) */
      long pfx_bad = 0;
      if (snap)
        for (long i = 0; i < snap; i++)
          if (x->buf[i] != prefix_snap[i])
            pfx_bad++;
      long first = 0, can = x->ext ? check_canary(x, &first) : 0;
      oprintf("A %d %d %d %d %ld %ld %ld\n", rc, before, after, dest, pfx_bad,
              can, first);
      free(text);
    } else if (!strcmp(c, "bin")) {
      wrap_in_api = 1;
      int rc = asm_create_bin_file(x->al, tok[2]);
      wrap_in_api = 0;
      oprintf("B %d\n", rc);
    } else if (!strcmp(c, "dump")) {
      long lo = atol(tok[2]), hi = atol(tok[3]);
      uint8_t *b = asm_get_code(x->al);
      oputs("D ");
      if (hi > lo && lo >= 0)
        ohex(b + lo, (size_t)(hi - lo));
      else
        oputs("-");
      oputs("\n");
    } else if (!strcmp(c, "asmrep")) {
      /* asmrep <id> <count> <hex line>: assemble a program made of <count> repetitions of one line (built here, so that programs of
       * tens of megabytes do not have to travel through the script) */
      long cnt = atol(tok[2]);
      char *ln = NULL;
      size_t ll = 0;
      if (cnt < 0 || unhex(tok[3] ? tok[3] : "-", &ln, &ll)) {
        oputs("E hex\n");
        continue;
      }
      char *text = malloc((ll + 1) * (size_t)cnt + 1);
      char *w = text;
      for (long i = 0; i < cnt; i++) {
        memcpy(w, ln, ll);
        w += ll;
        *w++ = '\n';
      }
      *w = 0;
      int before = asm_get_offset(x->al);
      x->last_before = before;
      wrap_in_api = 1;
      int rc = asm_assemble_str(x->al, text);
      wrap_in_api = 0;
      int after = asm_get_offset(x->al);
      if (rc == 0 && after > before && after > x->hiwater)
        x->hiwater = after;
      free(text);
      free(ln);
      oprintf("A %d %d %d -777 0 0 0\n", rc, before, after);
    } else if (!strcmp(c, "wfile")) {
      /* wfile <id> <path> <hex>: (re)write a file in the middle of a script - the same path then holds other contents */
      char *data = NULL;
      size_t dl = 0;
      if (unhex(tok[3] ? tok[3] : "-", &data, &dl)) {
        oputs("E hex\n");
        continue;
      }
      FILE *wf = fopen(tok[2], "wb");
      size_t wr = wf ? fwrite(data, 1, dl, wf) : 0;
      if (wf)
        fclose(wf);
      free(data);
      oprintf("F %d\n", wf && wr == dl ? 0 : 1);
    } else if (!strcmp(c, "mprot") || !strcmp(c, "madv")) {
      /* the CALLER changes the protection / advice of some pages of the code buffer (a JIT that seals finished pages read+exec,
       * excludes them from core dumps, ...): mprot <id> <first page> <pages> <prot>, madv <id> <first page> <pages> <advice> */
      uint8_t *b = asm_get_code(x->al);
      long pg = atol(tok[2]), np = atol(tok[3]);
      int arg = atoi(tok[4]);
      int r = !strcmp(c, "mprot") ? mprotect(b + pg * 4096, (size_t)np * 4096, arg) : madvise(b + pg * 4096, (size_t)np * 4096, arg);
      oprintf("M %d %d\n", r, r ? errno : 0);
    } else if (!strcmp(c, "dumpoff")) {
      /* the code [0, offset) as seen through the public getters */
      long hi = asm_get_offset(x->al);
      uint8_t *b = asm_get_code(x->al);
      oputs("D ");
      if (hi > 0)
        ohex(b, (size_t)hi);
      else
        oputs("-");
      oputs("\n");
    } else if (!strcmp(c, "sum")) {
      /* cheap fingerprint of [lo,hi) for long buffers (FNV-1a) */
      long lo = atol(tok[2]), hi = atol(tok[3]);
      uint8_t *b = asm_get_code(x->al);
      uint64_t h = 1469598103934665603ULL;
      if (hi > lo && ((!x->ext && hi > x->hiwater) ||
                      !range_mapped(b + lo, (size_t)(hi - lo)))) {
        /* the range is not (or no longer) part of any mapping: say so instead
         * of faulting in the harness */
        oputs("S unmapped\n");
        continue;
      }
      for (long i = lo; i < hi; i++)
        h = (h ^ b[i]) * 1099511628211ULL;
      oprintf("S %016llx\n", (unsigned long long)h);
    } else if (!strcmp(c, "sumoff")) {
      /* fingerprint of the code [0, offset) as seen through the public getters */
      long hi = asm_get_offset(x->al);
      uint8_t *b = asm_get_code(x->al);
      uint64_t h = 1469598103934665603ULL;
      /* on a library-managed buffer only what successful calls produced is
       * read: asm_set_offset may point beyond the mapping, and a program
       * without instructions leaves it there */
      long lim = (!x->ext && hi > x->hiwater) ? x->hiwater : hi;
      for (long i = 0; i < lim; i++)
        h = (h ^ b[i]) * 1099511628211ULL;
      oprintf("S %ld %016llx\n", hi, (unsigned long long)h);
    } else if (!strcmp(c, "guard")) {
      long first = 0, can = check_canary(x, &first);
      oprintf("U %ld %ld\n", can, first);
    } else if (!strcmp(c, "exec")) {
      do_exec(x);
    } else if (!strcmp(c, "del")) {
      free_inst(id);
      oputs("O\n");
    } else {
      oputs("E cmd\n");
    }
  }
  alarm(0);
  reset_all();
  oputs("Z\n");
  oflush();
  return 0;
}
