"""C19 - file entry points equal their in-memory counterparts; binary output is exact."""
import os
from .. import common

PAGE = 4096
UNITS = ["nop\n", "ret\n", "clc\n", "mov rax, rbx\n", "; c\n", "add rax, 1\r\n", "lbl:\n", "push r9\n",
         # option-sensitive lines: the settings of the instance (options, chunk fitting, start offset) must reach the file entry points
         "mov rax, 0x7fffffff\n", "lea r15, [rax+rsp]\n", "lea rcx, [2*rbx]\n"]
MASKS = ["211", "000", "111", "200", "011", "110", "101", "210"]


def content(size, ending, rnd):
    """file content of exactly `size` bytes. ending: 'nl' trailing newline, 'nonl' none, 'comment' ends inside a comment,
    'instr' ends inside an instruction (truncated text)"""
    out = ""
    while len(out) < size:
        out += rnd.choice(UNITS)
    out = out[:size]
    if size == 0:
        return out
    if ending == "nl":
        out = out[:-1] + "\n"
        # do not leave a truncated token right before the newline: overwrite the tail with a comment
        k = out.rfind("\n", 0, size - 1)
        out = out[:k + 1] + (";" + "x" * (size - k - 3) if size - k - 2 > 0 else "") + "\n" if size - k - 1 > 0 else out
    elif ending == "nonl":
        k = out.rfind("\n", 0, size)
        tail = size - k - 1
        out = out[:k + 1] + (";" + "y" * (tail - 1) if tail > 0 else "")
    elif ending == "comment":
        k = out.rfind("\n", 0, size)
        tail = size - k - 1
        out = out[:k + 1] + (";" + " mov rax, [" * 40)[:tail]
    elif ending in ("lastinstr", "lastret"):
        # the last line is a complete, valid instruction without a newline: every byte of the file matters
        last = "add rax, 0x12" if ending == "lastinstr" else "ret"
        if size <= len(last):
            return last[:size].ljust(size, ";") if size < len(last) else last
        body = size - len(last)
        k = out.rfind("\n", 0, body)
        head = out[:k + 1]
        fill = body - len(head)
        head += (";" + "z" * (fill - 2) + "\n") if fill >= 2 else ("\n" * fill)
        out = head + last
    elif ending == "instr":
        k = out.rfind("\n", 0, size)
        tail = size - k - 1
        out = out[:k + 1] + ("mov rax, 0x1122334455667788" * 3)[:tail]
    return out[:size].ljust(size, ";") if len(out) < size else out[:size]


def run(tier):
    v = common.Verdict("C19", tier)
    full = tier == "thorough"
    rnd = common.rng("c19")
    binary = common.build("wrap")
    wd = common.workdir()
    sizes = list(range(0, 65)) + [s for p in (PAGE, 2 * PAGE, 3 * PAGE) for s in range(p - 16, p + 17)]
    if full:
        sizes += [rnd.randrange(65, 4 * PAGE) for _ in range(400)] + [4 * PAGE, 16 * PAGE, 16 * PAGE + 1]
    # sizes around the powers of two a chunked reader might use as window (64 KiB, 1 MiB) and well beyond; the contents are lines of
    # 16 different lengths, so a window of any size ends in the middle of a line somewhere
    sizes += [65535, 65536, 65537, 262144 + 3, 1048575, 1048576, 1048577, 1048576 + 4096 + 7, 1300000] + ([3 * 1048576 + 5, 4194304, 8388608 + 11] if full else [])
    cases, meta = [], []
    fid = 0
    for size in sizes:
        for ending in (("nl", "nonl", "comment", "instr", "lastinstr", "lastret") if size < 60000 else ("nl", "lastinstr")):
            text = content(size, ending, rnd)
            assert len(text) == size, (size, ending, len(text))
            fid += 1
            path = os.path.join(wd, "f%d.asm" % fid)
            with open(path, "w", newline="") as f:
                f.write(text)
            for variant in ("file", "filecnt"):
                c = rnd.choice([2, 5, 16, 64, 0])
                # (the string side of a LARGE content works on a caller buffer: a defect of the library-managed buffer's growth would
                # otherwise be the same on both sides)
                cmds = ["wrap reset", "wrap guardfiles 1", "new 0 int", "new 1 int" if size < 60000 else "new 1 ext %d H 0xcc" % (size + 65536)]
                # the same settings on both instances: option combination, chunk fitting (file variant), start offset
                mk = rnd.choice(MASKS) if fid % 2 else "211"
                for i in (0, 1):
                    cmds += ["opt %d mov %s" % (i, mk[0]), "opt %d swap %s" % (i, mk[1]), "opt %d nobase %s" % (i, mk[2])]
                if variant == "file" and fid % 3 == 0:
                    cf = rnd.choice([16, 64, 7])
                    cmds += ["chunk 0 %d" % cf, "chunk 1 %d" % cf]
                if fid % 4 == 1 and size < 60000:  # (both instances on library buffers: the unwritten bytes below the start are zero on both)
                    k0 = rnd.choice([5, 4097, 70000])
                    cmds += ["setoff 0 %d" % k0, "setoff 1 %d" % k0]
                nset = len(cmds) - 4
                if variant == "file":
                    # one case in five goes through the deprecated alias assemble_file()
                    cmds += ["%s 0 %s" % ("fileold" if fid % 5 == 0 else "file", path), "asm 1 %s" % common.hx(text)]
                else:
                    cmds += ["filecnt 0 %d %s" % (c, path), "cnt 1 %d %s" % (c, common.hx(text))]
                cmds += ["sumoff 0", "sumoff 1", "wrapreport"]
                cases.append(cmds)
                meta.append(("content", size, ending, variant, path, nset))
    # arbitrary bytes: valid programs with byte-level damage (every byte value except NUL, which a C string cannot carry; byte order
    # marks and other prefixes an editor or a shell leaves behind; CR / FF / VT / 0x1a; damage at the very beginning, at line starts and at
    # the very end) - the string entry point mostly REJECTS these, and so must the file entry points; where it accepts, the results agree
    PREFIXES = [b"\xef\xbb\xbf", b"\xff\xfe", b"\xfe\xff", b"\xef\xbb", b"\xef", b"\r", b"\f", b"\v", b"\x1a", b"#!/usr/bin/asmline -r\n", b"\x7f", b" \t ", b"\xc2\xa0", b"\n\n", b"\r\n",
                b"\xe2\x80\x8b", b"\x01", b"\x1b[0m", b"%include 'x'\n", b"BITS 64\n", b"\xef\xbb\xbf\xef\xbb\xbf"]
    SUFFIXES = [b"\x1a", b"\r", b"\xff", b"\xef\xbb\xbf", b"\n\x1a", b"\f", b" \\", b"\\\n", b"\x04"]
    nraw = 900 if not full else 30000
    for k in range(nraw):
        size = rnd.choice([rnd.randrange(0, 40), rnd.randrange(0, 300), PAGE - rnd.randrange(0, 8), 2 * PAGE + rnd.randrange(-4, 5), rnd.randrange(300, 9000)])
        raw = content(size, rnd.choice(["nl", "nonl", "lastinstr", "lastret"]), rnd).encode("latin-1")
        how = []
        for _ in range(rnd.choice([1, 1, 1, 2, 3])):
            m = rnd.randrange(6)
            if m == 0:
                pf = rnd.choice(PREFIXES)
                raw = pf + raw
                how.append("prefix:" + pf.hex())
            elif m == 1:
                sf = rnd.choice(SUFFIXES)
                raw = raw + sf
                how.append("suffix:" + sf.hex())
            elif m == 2 and raw:
                pos = rnd.choice([0, 1, 2, len(raw) - 1, rnd.randrange(len(raw))])
                b = bytes([rnd.randrange(1, 256)])
                raw = raw[:pos] + b + raw[pos:]
                how.append("insert:%s@%d" % (b.hex(), pos))
            elif m == 3 and raw:
                pos = rnd.choice([0, len(raw) - 1, rnd.randrange(len(raw))])
                b = bytes([rnd.randrange(1, 256)])
                raw = raw[:pos] + b + raw[pos + 1:]
                how.append("replace:%s@%d" % (b.hex(), pos))
            elif m == 4 and b"\n" in raw:
                # damage at the start of some line
                starts = [i + 1 for i in range(len(raw)) if raw[i:i + 1] == b"\n"]
                pos = rnd.choice(starts)
                pf = rnd.choice(PREFIXES)
                raw = raw[:pos] + pf + raw[pos:]
                how.append("linestart:%s@%d" % (pf.hex(), pos))
            else:
                nl = rnd.choice([b"\r", b"\n\r", b"\r\r\n", b"\x0b", b"\x0c", b"\x85", b"\xe2\x80\xa8"])
                raw = raw.replace(b"\n", nl, rnd.choice([1, 2, 1000]))
                how.append("newline:" + nl.hex())
        fid += 1
        path = os.path.join(wd, "r%d.asm" % fid)
        with open(path, "wb") as f:
            f.write(raw)
        variant = "file" if k % 2 else "filecnt"
        c = rnd.choice([2, 5, 16, 64, 0])
        cmds = ["wrap reset", "wrap guardfiles 1", "new 0 int", "new 1 int"]
        if variant == "file":
            cmds += ["file 0 %s" % path, "asm 1 %s" % common.hx(raw)]
        else:
            cmds += ["filecnt 0 %d %s" % (c, path), "cnt 1 %d %s" % (c, common.hx(raw))]
        cmds += ["sumoff 0", "sumoff 1", "wrapreport"]
        cases.append(cmds)
        meta.append(("content", len(raw), "raw " + ",".join(how), variant, path, 0))
    # the same file reached by other NAMES: through a symbolic link (also a chain of two, and a relative link), a hard link, a path with
    # './', '//' and 'dir/..' components, with blanks and UTF-8 in its name, a long path (220 characters); and /dev/null (empty)
    pdir = os.path.join(wd, "paths dir \u00e9\u4e2d")
    os.makedirs(os.path.join(pdir, "sub"), exist_ok=True)
    ptext = "mov rax, 0x7fffffff\nlea r15, [rax+rsp]\nadd rax, rbx\nret\n"
    real = os.path.join(pdir, "real file.asm")
    with open(real, "w") as f:
        f.write(ptext)
    names = []
    def link(name, target):
        pth = os.path.join(pdir, name)
        if not os.path.lexists(pth):
            os.symlink(target, pth)
        return pth
    names.append(("symlink", link("link1.asm", real)))
    names.append(("symlink-chain", link("link2.asm", os.path.join(pdir, "link1.asm"))))
    names.append(("symlink-relative", link("link3.asm", "real file.asm")))
    hl = os.path.join(pdir, "hard.asm")
    if not os.path.exists(hl):
        os.link(real, hl)
    names.append(("hardlink", hl))
    names.append(("dot-components", os.path.join(pdir, ".", "sub", "..", "real file.asm")))
    names.append(("double-slash", pdir + "//real file.asm"))
    longd = os.path.join(wd, "d" * 100, "e" * 100)
    os.makedirs(longd, exist_ok=True)
    with open(os.path.join(longd, "long.asm"), "w") as f:
        f.write(ptext)
    names.append(("long-path", os.path.join(longd, "long.asm")))
    names.append(("symlinked-directory", os.path.join(link("dlink", longd), "long.asm")))
    for why, pth in names:
        for variant in ("file", "filecnt"):
            cmds = ["wrap reset", "wrap guardfiles 1", "new 0 int", "new 1 int"]
            hp = "hex:" + common.hx(pth.encode("utf-8"))
            cmds += ["file 0 %s" % hp, "asm 1 %s" % common.hx(ptext)] if variant == "file" else ["filecnt 0 8 %s" % hp, "cnt 1 8 %s" % common.hx(ptext)]
            cmds += ["sumoff 0", "sumoff 1", "wrapreport"]
            cases.append(cmds)
            meta.append(("content", len(ptext), "name " + why, variant, pth, 0))
    for variant in ("file", "filecnt"):
        cmds = ["wrap reset", "wrap guardfiles 1", "new 0 int", "new 1 int"]
        cmds += ["file 0 /dev/null", "asm 1 -"] if variant == "file" else ["filecnt 0 8 /dev/null", "cnt 1 8 -"]
        cmds += ["sumoff 0", "sumoff 1", "wrapreport"]
        cases.append(cmds)
        meta.append(("content", 0, "name /dev/null", variant, "/dev/null", 0))
    # the SAME path holding other contents the next time (same length, a constant changed near the end / the beginning; longer; shorter;
    # empty): whatever the library remembers about a file it has read (a mapping, a parse, a size) must not survive the file's rewriting
    rwdir = os.path.join(wd, "rewritten")
    os.makedirs(rwdir, exist_ok=True)
    for k in range(40 if not full else 1500):
        nl = rnd.choice([1, 3, 40, 300, 1500])
        body = ["mov rax, 0x%016x" % rnd.getrandbits(63) for _ in range(nl)]
        c1 = "\n".join(body) + "\nret\n"
        b2 = list(body)
        how = k % 5
        if how == 0:
            b2[-1] = b2[-1][:-1] + ("1" if b2[-1][-1] != "1" else "2")     # same length, last constant changed in its last digit
        elif how == 1:
            b2[0] = b2[0][:-1] + ("1" if b2[0][-1] != "1" else "2")
        elif how == 2:
            b2 = b2 + ["nop"] * rnd.randrange(1, 50)
        elif how == 3:
            b2 = b2[:max(0, len(b2) // 2)]
        else:
            b2 = []
        c2 = "\n".join(b2 + ["ret"]) + "\n" if how != 4 else ""
        pth = os.path.join(rwdir, "rw%d.asm" % k)
        variant = "file" if k % 2 else "filecnt"
        fc = (lambda t: ["file 0 %s" % pth, "asm 1 %s" % common.hx(t)]) if variant == "file" else (lambda t: ["filecnt 0 16 %s" % pth, "cnt 1 16 %s" % common.hx(t)])
        cmds = ["wrap reset", "wrap guardfiles 1", "new 0 int", "new 1 int", "wfile 0 %s %s" % (pth, common.hx(c1))] + fc(c1) + ["sumoff 0", "sumoff 1",
                "wfile 0 %s %s" % (pth, common.hx(c2)), "setoff 0 0", "setoff 1 0"] + fc(c2) + ["sumoff 0", "sumoff 1"]
        cases.append(cmds)
        meta.append(("rewritten", nl, how, variant, pth, 0))
    # files read by someone who is NOT their owner (an installed or shared source file): the script drops to an unprivileged uid first.
    # A world-readable file of another user assembles like the string; a file without read permission for others is the "unreadable
    # file" of the statement (as root - which is what the checks run as - no file is unreadable) and must yield EXIT_FAILURE
    ocases, ometa = [], []  # (run in processes of their own: the rest of a driver process stays unprivileged after the drop)
    odir = os.path.join(wd, "owned-by-root")
    os.makedirs(odir, exist_ok=True)
    os.chmod(wd, 0o755)
    os.chmod(odir, 0o755)
    otext = "mov rax, 0x7fffffff\nlea r15, [rax+rsp]\nadd rax, rbx\nret\n"
    for fname, mode in (("readable.asm", 0o644), ("unreadable.asm", 0o600), ("readonly.asm", 0o444), ("noperm.asm", 0o000)):
        with open(os.path.join(odir, fname), "w") as f:
            f.write(otext)
        os.chmod(os.path.join(odir, fname), mode)
    for fname, readable in (("readable.asm", True), ("unreadable.asm", False), ("readonly.asm", True), ("noperm.asm", False)):
        for variant in ("file", "filecnt"):
            pth = os.path.join(odir, fname)
            cmds = ["wrap reset", "new 0 int", "new 1 int", "dropuid 0 65534"]
            cmds += ["file 0 %s" % pth, "asm 1 %s" % common.hx(otext)] if variant == "file" else ["filecnt 0 8 %s" % pth, "cnt 1 8 %s" % common.hx(otext)]
            cmds += ["sumoff 0", "sumoff 1", "setoff 0 0", "asm 0 %s" % common.hx("ret"), "sumoff 0"]
            ocases.append(cmds)
            ometa.append(("otheruser", fname, readable, variant, pth, 0))
    # several files one after the other on the SAME instance (longer, then shorter, then empty, line-aligned or not): what an
    # earlier file call left behind (a cached mapping, a stale tail) must not show in a later one
    made = [(m[4], m[1]) for m in meta if m[0] == "content" and m[3] == "file" and not m[2].startswith(("raw", "name"))]
    meta = [tuple(m) + ((0,) if len(m) == 5 else ()) for m in meta]
    texts = {}
    for pth, _ in made:
        with open(pth, newline="") as f:
            texts[pth] = f.read()
    nseq = 150 if not full else 3000
    for k in range(nseq):
        n = rnd.randrange(2, 6)
        seq = [rnd.choice(made) for _ in range(n)]
        seq.sort(key=lambda x: -x[1])  # mostly decreasing sizes ...
        if k % 3 == 0:
            rnd.shuffle(seq)  # ... sometimes any order
        if k % 4 == 0:
            seq.append(rnd.choice([m for m in made if m[1] == 0]))  # an empty file last
        cmds = ["wrap reset", "wrap guardfiles 1", "new 0 int", "new 1 int"]
        steps = []
        for pth, size in seq:
            variant = rnd.choice(["file", "filecnt"])
            c = rnd.choice([2, 5, 16, 64, 0])
            cmds += ["setoff 0 0", "setoff 1 0"]
            if variant == "file":
                cmds += ["file 0 %s" % pth, "asm 1 %s" % common.hx(texts[pth])]
            else:
                cmds += ["filecnt 0 %d %s" % (c, pth), "cnt 1 %d %s" % (c, common.hx(texts[pth]))]
            cmds += ["sumoff 0", "sumoff 1"]
            steps.append((size, variant))
        cases.append(cmds)
        meta.append(("sequence", steps, None, "mixed", None))
    # missing / unusable paths
    os.makedirs(os.path.join(wd, "adir"), exist_ok=True)
    with open(os.path.join(wd, "plainfile"), "w") as f:
        f.write("nop\n")
    for badpath, why in ((os.path.join(wd, "does-not-exist.asm"), "missing"), (os.path.join(wd, "adir"), "directory"),
                         (os.path.join(wd, "plainfile", "x.asm"), "notdir-component"), ("", "empty-path")):
        for variant in ("file", "filecnt"):
            cmds = ["wrap reset", "wrap guardfiles 1", "new 0 int", "asm 0 %s" % common.hx("nop\nnop"),
                    ("file 0 %s" % badpath) if variant == "file" else ("filecnt 0 8 %s" % badpath), "setoff 0 2", "sumoff 0", "asm 0 %s" % common.hx("ret"), "sumoff 0"]
            if badpath == "":
                continue
            cases.append(cmds)
            meta.append(("badpath", why, None, variant, badpath))
    # binary output at various offsets
    for bi, off in enumerate([0, 1, 2, 19, 4095, 4096, 4097, 6000, 20000, 0, 7, 4096, 65535, 65536, 65537, 1048576 + 5] + ([rnd.randrange(0, 30000) for _ in range(40)] if full else [])):
        out = os.path.join(wd, "out%d-%d.bin" % (bi, off))
        if bi >= 9:
            # the target exists already - longer or shorter than the code, or as a symlink to such a file: it must end up holding
            # exactly [0, offset)
            with open(out + ".real" if bi % 3 == 0 else out, "wb") as f:
                f.write(b"\xee" * rnd.choice([1, off + 1, off + 4096, 2 * off + 10, max(0, off - 1)]))
            if bi % 3 == 0:
                os.symlink(out + ".real", out)
        prog = "\n".join(["mov rax, 0x1122334455667788"] * (off // 10) + ["nop"] * (off % 10))
        cmds = ["new 0 int"] + (["asm 0 %s" % common.hx(prog)] if off else []) + ["sumoff 0", "bin 0 %s" % out, "dump 0 0 %d" % off]
        cases.append(cmds)
        meta.append(("bin", off, None, "bin", out))
    # binary output twice to the same path: after more code, and after the offset went BACK (the second file is shorter)
    for bi, (o1, o2) in enumerate([(300, 600), (600, 300), (5000, 10), (10, 5000), (70000, 4096), (4096, 0)]):
        out = os.path.join(wd, "twice%d.bin" % bi)
        prog = "\n".join(["mov rax, 0x1122334455667788"] * (max(o1, o2) // 10) + ["nop"] * (max(o1, o2) % 10))
        cmds = ["new 0 int", "asm 0 %s" % common.hx(prog), "setoff 0 %d" % o1, "bin 0 %s" % out, "setoff 0 %d" % o2, "sumoff 0", "bin 0 %s" % out, "dump 0 0 %d" % o2]
        cases.append(cmds)
        meta.append(("bin2", o2, o1, "bin", out))
    res = common.run_cases(binary, cases, tag="c19") + common.run_cases(binary, ocases, tag="c19o")
    cases = cases + ocases
    meta = meta + ometa
    stats = {"content_cases": 0, "sizes": len(sizes), "page_multiple_sizes": sum(1 for s in sizes if s and s % PAGE == 0), "empty_files": 0, "badpath_cases": 0, "bin_cases": 0, "guarded_mappings": 0,
             "file_rc0": 0, "file_rc1": 0}
    meta = [tuple(m) + ((0,) if len(m) == 5 else ()) for m in meta]
    for (kind, a, b, variant, path, nset), cmds, r in zip(meta, cases, res):
        v.count()
        case = {"key": "%s %s %s %s" % (kind, a, b, variant), "fam": "file_" + kind, "variant": variant, "size": a if kind == "content" else None}
        if r["crash"]:
            v.violation(case, r["crash"]["sig"], (r["crash"]["what"] + "\n" + r["crash"]["stderr"][-1000:]))
            continue
        recs = r["records"]
        if kind == "content":
            stats["content_cases"] += 1
            stats["empty_files"] += a == 0
            f, s, s0, s1 = recs[4 + nset].split(), recs[5 + nset].split(), recs[6 + nset].split(), recs[7 + nset].split()
            stats["guarded_mappings"] += int(recs[8 + nset].split("gmaps=")[1])
            stats["content_cases_with_settings"] = stats.get("content_cases_with_settings", 0) + (nset > 6)
            stats["file_rc%s" % f[1]] = stats.get("file_rc%s" % f[1], 0) + 1
            if b.startswith("raw"):
                stats["raw_rc%s" % f[1]] = stats.get("raw_rc%s" % f[1], 0) + 1
            if f[1] != s[1]:
                v.violation(case, "rc:file=%s,string=%s" % (f[1], s[1]), "file %s | string %s" % (recs[4 + nset], recs[5 + nset]))
            elif f[3] != s[3] or s0[1:] != s1[1:]:
                v.violation(case, "offset/bytes-differ", "file %s %s | string %s %s" % (recs[4 + nset], recs[6 + nset], recs[5 + nset], recs[7 + nset]))
            elif variant == "filecnt" and f[4] != s[4]:
                v.violation(case, "count-differs", "file %s | string %s" % (f[4], s[4]))
            else:
                v.distinct((a, b, variant))
                if v.cov["evaluations"] % 150 == 1:
                    v.sample({"size": a, "ending": b, "entry": variant, "rc": f[1], "offset": f[3]})
        elif kind == "otheruser":
            stats["other_user_cases"] = stats.get("other_user_cases", 0) + 1
            u = recs[3].split()
            if u[0] != "U" or u[1] != "0" or u[2] != "65534":
                v.inconclusive.append({"why": "could not drop to an unprivileged user: %s" % recs[3], "case": case["key"]})
                continue
            f, s_, s0, s1 = recs[4].split(), recs[5].split(), recs[6].split(), recs[7].split()
            if b:  # readable
                if f[1] != s_[1] or f[3] != s_[3] or s0[1:] != s1[1:] or (variant == "filecnt" and f[4] != s_[4]):
                    v.violation(case, "other-user:rc:file=%s,string=%s" % (f[1], s_[1]) if f[1] != s_[1] else "other-user:offset/bytes/count-differ", "%s %s | %s %s" % (recs[4], recs[6], recs[5], recs[7]))
                    continue
            else:
                if f[1] == "0":
                    v.violation(case, "unreadable-file-accepted", recs[4])
                    continue
                if recs[9].split()[1] != "0" or recs[10].split()[1] != "1":
                    v.violation(case, "instance-unusable-after-unreadable-file", " | ".join(recs[8:11]))
                    continue
            v.distinct((kind, a, variant))
        elif kind == "rewritten":
            stats["rewritten_file_cases"] = stats.get("rewritten_file_cases", 0) + 1
            bad = None
            for step, base in ((1, 5), (2, 12)):
                f, s_, s0, s1 = recs[base].split(), recs[base + 1].split(), recs[base + 2].split(), recs[base + 3].split()
                if f[1] != s_[1]:
                    bad = ("rewritten:rc:file=%s,string=%s" % (f[1], s_[1]), "reading %d of the path: %s | %s" % (step, recs[base], recs[base + 1]))
                elif f[3] != s_[3] or s0[1:] != s1[1:] or f[4] != s_[4]:
                    bad = ("rewritten:offset/bytes/count-differ", "reading %d of the path (rewritten between the readings: %s): %s %s | %s %s" % (step, ["last constant", "first constant", "longer", "shorter", "empty"][b], recs[base], recs[base + 2], recs[base + 1], recs[base + 3]))
                if bad:
                    break
            if bad:
                v.violation(case, bad[0], bad[1])
            else:
                v.distinct(("rw", a, b, variant, path))
        elif kind == "sequence":
            stats["sequence_cases"] = stats.get("sequence_cases", 0) + 1
            bad = None
            for i, (size, variant) in enumerate(a):
                base = 4 + 6 * i
                f, s_, s0, s1 = recs[base + 2].split(), recs[base + 3].split(), recs[base + 4].split(), recs[base + 5].split()
                if f[1] != s_[1]:
                    bad = ("sequence:rc:file=%s,string=%s" % (f[1], s_[1]), "step %d (%d bytes, %s) of sizes %s: %s | %s" % (i, size, variant, [x[0] for x in a], recs[base + 2], recs[base + 3]))
                elif f[1] == "0" and (f[3] != s_[3] or s0[1:] != s1[1:]):
                    bad = ("sequence:offset/bytes-differ", "step %d (%d bytes, %s) of sizes %s: %s %s | %s %s" % (i, size, variant, [x[0] for x in a], recs[base + 2], recs[base + 4], recs[base + 3], recs[base + 5]))
                elif f[1] == "0" and variant == "filecnt" and f[4] != s_[4]:
                    bad = ("sequence:count-differs", "step %d: file %s | string %s" % (i, f[4], s_[4]))
                if bad:
                    break
            if bad:
                v.violation(case, bad[0], bad[1])
            else:
                v.distinct(("seq", tuple(a)))
        elif kind == "badpath":
            stats["badpath_cases"] += 1
            f = recs[4].split()
            if f[1] != "1":
                v.violation(case, "bad-path-accepted", recs[4])
            elif recs[6].split()[1] != "2" or recs[7].split()[1] != "0" or recs[8].split()[1] != "3":
                v.violation(case, "instance-unusable-after-bad-path", " | ".join(recs[5:9]))
            else:
                v.distinct((kind, a, variant))
        else:
            stats["bin_cases"] += 1
            off = a
            bidx = 5 if kind == "bin2" else (2 if off else 1)
            s0 = recs[bidx].split()
            brec = recs[bidx + 1].split()
            d = recs[bidx + 2].split()[1]
            d = "" if d == "-" else d
            if int(s0[1]) != off:
                v.violation(case, "precondition:program-length-differs", "assembled %s bytes, the fixed program has %d" % (s0[1], off))
                continue
            try:
                data = open(path, "rb").read().hex()
            except OSError:
                data = None
            if brec[1] != "0":
                v.violation(case, "bin-file-call-failed", recs[bidx + 1])
            elif data != d:
                v.violation(case, "bin-file-content-differs", "file %s bytes vs %d" % (None if data is None else len(data) // 2, off))
            else:
                v.distinct((kind, off, b, os.path.basename(path)))
    v.cov["rule"] = ("file contents of EVERY size 0..64 and every size within +/-16 of 1, 2 and 3 pages x 6 endings (newline, none, inside a comment, inside an instruction, a complete instruction / ret as last line without newline; CRLF lines inside) x both file entry points, plus valid programs with byte-level damage (byte order marks and other prefixes, any byte value 1..255 inserted / replaced at the beginning, the end, line starts or anywhere, odd line separators), "
                     "differentially against the string entry points on the same content under the same settings (option combination, chunk fitting, start offset; the contents contain option-sensitive lines) (rc, offset, count, FNV of the code); ld --wrap mmap puts a PROT_NONE page right after every non-executable mapping the "
                     "library creates, so a missing terminator faults deterministically; the same file reached through symbolic links (chain, relative, symlinked directory), a hard link, './' '//' 'dir/..' components, blanks and UTF-8 in the name, a 220-character path, and /dev/null; files read after dropping to an unprivileged uid: a readable file of another owner equals the string, a file without read permission yields EXIT_FAILURE and leaves the instance usable; missing / directory / ENOTDIR paths must fail and leave the instance usable; asm_create_bin_file at offsets 0,1,2,19,4095..4097,6000,20000,65535..65537,2^20+5 must equal [0,offset), also onto existing longer / shorter files, through a symlink, and twice to the same path (more code; offset moved back); the same path read twice by one instance with the file rewritten in between (same length with one digit changed, longer, shorter, empty); sequences of 2-6 file calls of (mostly) decreasing size, ending with an empty file, on ONE instance, each step compared with the string entry point")
    v.cov["exhaustive"] = True
    v.cov.update(stats)
    return v.finish(None, stats["content_cases"] > 300 and stats["guarded_mappings"] > 100, "too few file cases / guard never active: %r" % stats)
