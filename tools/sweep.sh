#!/bin/sh
# tools/sweep.sh <tier> <seed> [checks...]  - run checks one after another with VERIF_SEED=<seed>; evidence of non-default
# seeds goes to a scratch directory so that the committed evidence always stems from the default seed.
tier=$1; seed=$2; shift 2
[ $# -eq 0 ] && set -- C01 C02 C03 C04 C05 C06 C07 C08 C09 C10 C11 C12 C13 C14 C15 C16 C17 C18 C19 C20
cd "$(dirname "$0")/.."
mkdir -p /tmp/w/ev-$seed
for c in "$@"; do
  t0=$(date +%s)
  if [ "$seed" = default ]; then
    out=$(./check $c $tier 2>&1 | tail -1)
  else
    out=$(VERIF_SEED=$seed VERIF_EVIDENCE_DIR=/tmp/w/ev-$seed VERIF_REPLAY_DIR=/tmp/w/ev-$seed/replay ./check $c $tier 2>&1 | tail -1)
  fi
  rc=$?
  echo "$c seed=$seed $(( $(date +%s) - t0 ))s $out"
done
