"""C17 - OS resource failures are reported, never crash or corrupt (fault enumeration via ld --wrap failpoints)."""
import os
from .. import common

SYMS = list(common.WRAPS)
# calls whose refusal the library cannot work around today: the failure has to come back as NULL / EXIT_FAILURE.  For the others (munmap,
# close, read - an interrupted read may be retried - and the calls the library does not make today) the judgement is on the outcome:
# no crash, and if no call reported a failure the final offset, code and file equal the fault-free run.
MUST_REPORT = {"malloc", "mmap", "mremap", "open", "fstat", "fopen", "fwrite", "fclose"}


def long_prog(nbytes, tagbyte):
    n = nbytes // 10
    return "\n".join("mov rax, 0x11223344556600%02x" % ((tagbyte + i) & 0xff) for i in range(n))


def scenarios(wd):
    """name -> list of driver commands; '@' marks where the failpoint is armed (after wrap reset)"""
    S = {}
    first = long_prog(300, 1)
    big = long_prog(20000, 7)
    fpath = os.path.join(wd, "c17-3pages.asm")
    with open(fpath, "w") as f:
        f.write(("mov rax, rbx ; pad pad pad\n" * 470)[:3 * 4096])
    S["S1-create-internal"] = ["@", "new 0 int", "asm 0 %s" % common.hx("ret"), "del 0"]
    S["S1b-create-external"] = ["@", "new 0 ext 256 H 0xcc", "asm 0 %s" % common.hx("ret"), "del 0"]
    S["S2-grow-plain"] = ["new 0 int", "asm 0 %s" % common.hx(first), "sumoff 0", "@", "asm 0 %s" % common.hx(big), "sum 0 0 300", "del 0"]
    S["S3-grow-fitting"] = ["new 0 int", "chunk 0 16", "asm 0 %s" % common.hx(first), "sumoff 0", "@", "asm 0 %s" % common.hx(big), "sum 0 0 300", "del 0"]
    S["S3-grow-counting"] = ["new 0 int", "asm 0 %s" % common.hx(first), "sumoff 0", "@", "cnt 0 16 %s" % common.hx(big), "sum 0 0 300", "del 0"]
    S["S4-file"] = ["new 0 int", "asm 0 %s" % common.hx(first), "sumoff 0", "@", "file 0 %s" % fpath, "sum 0 0 300", "del 0"]
    S["S4-file-counting"] = ["new 0 int", "asm 0 %s" % common.hx(first), "sumoff 0", "@", "filecnt 0 8 %s" % fpath, "sum 0 0 300", "del 0"]
    S["S5-bin"] = ["new 0 int", "asm 0 %s" % common.hx(first), "sumoff 0", "@", "bin 0 %s" % os.path.join(wd, "c17-out.bin"), "sum 0 0 300", "dump 0 0 300", "del 0"]
    S["S5-bin-devfull"] = ["new 0 int", "asm 0 %s" % common.hx(first), "sumoff 0", "@", "bin 0 /dev/full", "sum 0 0 300", "del 0"]
    S["S6-fail-then-continue-bin"] = ["new 0 int", "asm 0 %s" % common.hx(first), "sumoff 0", "asm 0 %s" % common.hx("bogus"), "setoff 0 300", "@", "asm 0 %s" % common.hx(big),
                                      "sum 0 0 300", "setoff 0 300", "bin 0 %s" % os.path.join(wd, "c17-out6.bin"), "dump 0 0 300", "del 0"]
    # a long assembly (200 kB in ten calls, about 33 growths): growth behaviour that only changes beyond some size, and what
    # happens when assembly simply CONTINUES after the refused growth (each later part must land intact at its place)
    parts = [long_prog(20000, 11 + 3 * i) for i in range(10)]
    cmds = ["new 0 int", "asm 0 %s" % common.hx(first), "sumoff 0", "@"]
    for i, pt in enumerate(parts):
        # every part is assembled, the offset put back to where the part started, and the part assembled again: what a caller does
        # who retries after a failure (without a failure the second call rewrites the same bytes)
        cmds += ["asm 0 %s" % common.hx(pt), "setoff 0 %d" % (300 + 20000 * i), "asm 0 %s" % common.hx(pt)]
    cmds += ["sum 0 %d %d" % (300 + 20000 * i, 300 + 20000 * (i + 1)) for i in range(10)] + ["sum 0 0 300", "del 0"]
    S["S7-grow-long-continue"] = cmds
    # a file that is longer than fstat said (it grew in between; also what a pipe or a /proc file looks like): whatever the library
    # reads of it without a fault, a refused operation while reading must not pass for the end of the file
    gpath = os.path.join(wd, "c17-grown.asm")
    with open(gpath, "w") as f:
        f.write("mov rax, rbx ;..\n" * 2560)  # 16 bytes per line, 40 kB; the reported size 4096 ends on a line boundary
    S["S8-file-longer-than-stat"] = ["new 0 int", "asm 0 %s" % common.hx(first), "sumoff 0", "wrap fstatshrink 4096", "@", "file 0 %s" % gpath, "sumoff 0", "sum 0 0 300", "del 0"]
    S["S8-filecnt-longer-than-stat"] = ["new 0 int", "asm 0 %s" % common.hx(first), "sumoff 0", "wrap fstatshrink 4096", "@", "filecnt 0 8 %s" % gpath, "sumoff 0", "sum 0 0 300", "del 0"]
    # file assembly on a caller buffer, twice on one instance, of an empty file, and with growth of the internal buffer DURING the file
    # call (the text mapping and the code buffer are both live when mremap is refused)
    epath = os.path.join(wd, "c17-empty.asm")
    open(epath, "w").close()
    bpath = os.path.join(wd, "c17-big.asm")
    with open(bpath, "w") as f:
        f.write(big + "\n")
    S["S4b-file-external"] = ["new 0 ext 20000 H 0xcc", "asm 0 %s" % common.hx(first), "sumoff 0", "@", "file 0 %s" % fpath, "sumoff 0", "sum 0 0 300", "del 0"]
    S["S4c-file-twice"] = ["new 0 int", "asm 0 %s" % common.hx(first), "sumoff 0", "@", "file 0 %s" % fpath, "file 0 %s" % fpath, "sumoff 0", "sum 0 0 300", "del 0"]
    S["S4d-file-empty"] = ["new 0 int", "asm 0 %s" % common.hx(first), "sumoff 0", "@", "file 0 %s" % epath, "filecnt 0 4 %s" % epath, "sum 0 0 300", "del 0"]
    S["S4e-file-growing-buffer"] = ["new 0 int", "asm 0 %s" % common.hx(first), "sumoff 0", "@", "file 0 %s" % bpath, "sumoff 0", "sum 0 0 300", "del 0"]
    S["S4f-filecnt-growing-buffer"] = ["new 0 int", "asm 0 %s" % common.hx(first), "sumoff 0", "@", "filecnt 0 16 %s" % bpath, "sumoff 0", "sum 0 0 300", "del 0"]
    # short reads (legal at any time): 1000 and 1 byte per read(); a refused read in the middle
    S["S4g-file-short-reads"] = ["new 0 int", "asm 0 %s" % common.hx(first), "sumoff 0", "wrap readmax 1000", "@", "file 0 %s" % fpath, "sumoff 0", "sum 0 0 300", "del 0"]
    S["S4h-file-interrupted-read"] = ["new 0 int", "asm 0 %s" % common.hx(first), "sumoff 0", "wrap readmax 4096", "wrap readerrno 4", "@", "file 0 %s" % fpath, "sumoff 0", "sum 0 0 300", "del 0"]
    # binary output with nothing assembled, onto an existing longer file ('binover' = the harness creates a 1000-byte file first),
    # twice to the same path with more code in between, and of 20 kB of code (more than one stdio buffer)
    S["S5b-bin-offset0"] = ["new 0 int", "@", "bin 0 %s" % os.path.join(wd, "c17-out0.bin"), "dump 0 0 0", "del 0"]
    S["S5c-bin-over-existing"] = ["new 0 int", "asm 0 %s" % common.hx(first), "sumoff 0", "@", "binover 0 %s" % os.path.join(wd, "c17-outx.bin"), "sum 0 0 300", "dump 0 0 300", "del 0"]
    S["S5d-bin-twice"] = ["new 0 int", "asm 0 %s" % common.hx(first), "sumoff 0", "@", "bin 0 %s" % os.path.join(wd, "c17-out2.bin"), "asm 0 %s" % common.hx(first),
                          "bin 0 %s" % os.path.join(wd, "c17-out2.bin"), "sum 0 0 300", "dump 0 0 600", "del 0"]
    S["S5e-bin-20k"] = ["new 0 int", "asm 0 %s" % common.hx(first), "sumoff 0", "asm 0 %s" % common.hx(big), "@", "bin 0 %s" % os.path.join(wd, "c17-outb.bin"), "sum 0 0 300", "dump 0 0 20300", "del 0"]
    return S


def build_script(cmds, fail=None, uniq="", mode="fail"):
    out = ["wrap reset"]
    for c in cmds:
        if c.startswith("binover "):
            c = "bin " + c[8:]
            with open(c.split()[2] + uniq, "wb") as f:
                f.write(b"\xee" * 1000)
        if c.startswith("bin ") and not c.endswith("/dev/full"):
            c = c + uniq  # one output file per run: runs execute in parallel
        if c == "@":
            # counters restart here so k counts calls of the affected operation only... keep global: arm k-th call from now
            if fail and mode == "pair":
                out.append("wrap fail %s %d" % fail[:2])
                out.append("wrap fail %s %d" % fail[2:])
            elif fail and mode == "failrand":
                out.append("wrap failrand %d %d" % fail)
                out.append("wrap forcemove 0")
            elif fail:
                out.append("wrap %s %s %d" % ((mode,) + tuple(fail)))
                out.append("wrap forcemove 0")
            else:
                out.append("wrap forcemove 0")
                out.append("wrap forcemove 0")
        else:
            out.append(c)
    out.append("wrapreport")
    return out


def run(tier):
    v = common.Verdict("C17", tier, level="fault_enumeration")
    binary = common.build("wrap")
    wd = common.workdir()
    S = scenarios(wd)
    names = sorted(S)
    # counting runs
    base = common.run_cases(binary, [build_script(S[n]) for n in names], tag="c17c")
    counts = {}
    ref = {}
    for n, r in zip(names, base):
        if r["crash"]:
            v.violation({"key": "baseline " + n, "fam": "fault", "scenario": n}, r["crash"]["sig"], r["crash"]["stderr"][-1000:])
            continue
        w = r["records"][-1]
        counts[n] = {s: int(w.split(" %s=" % s)[1].split("/")[0]) for s in SYMS}
        ref[n] = r["records"]
    # the armed counter counts calls made after '@' only if we subtract the calls before it: measure with a second counting run up to '@'
    pre = {}
    precases = []
    for n in names:
        cmds = S[n][:S[n].index("@")]
        precases.append(build_script(cmds + ["@"]))
    for n, r in zip(names, common.run_cases(binary, precases, tag="c17p")):
        w = r["records"][-1]
        pre[n] = {s: int(w.split(" %s=" % s)[1].split("/")[0]) for s in SYMS}
    jobs = []
    full = tier == "thorough"
    for n in names:
        if n not in counts:
            continue
        live = [(s, counts[n][s] - pre[n][s]) for s in SYMS if counts[n][s] - pre[n][s] > 0]
        for s, k_total in live:
            for k in range(1, k_total + 1):
                jobs.append((n, "fail", (s, k)))       # exactly the k-th call is refused
                jobs.append((n, "failfrom", (s, k)))   # the k-th call and every later one are refused (the resource stays exhausted)
        # two refusals of different operations in one run (the clean-up after the first one meets the second); the thorough tier
        # takes every pair of failpoints, the quick tier the first call of each operation
        for i, (s1, t1) in enumerate(live):
            for (s2, t2) in live[i + 1:]:
                for k1 in (range(1, t1 + 1) if full else (1,)):
                    for k2 in (range(1, t2 + 1) if full else (1,)):
                        jobs.append((n, "pair", (s1, k1, s2, k2)))

    # random fault schedules (thorough): every wrapped call after the arming point is refused with probability 2%, 10% or 30%
    if full:
        rr = common.rng("c17")
        for n in names:
            if n in counts:
                for k in range(150):
                    jobs.append((n, "failrand", (rr.randrange(1, 10**9), rr.choice([20, 100, 300]))))

    def uniq(mode, f):
        return ".%s.%s" % (mode, "-".join(str(x) for x in f))
    res = common.run_cases(binary, [build_script(S[n], f, uniq(mode, f), mode) for (n, mode, f) in jobs], tag="c17f")
    stats = {"scenarios": len(names), "failpoints": len(jobs), "fired": 0, "not_reached": 0, "per_mode": {"fail": 0, "failfrom": 0, "pair": 0, "failrand": 0}, "per_symbol": {s: 0 for s in SYMS},
             "calls_per_scenario": {n: {s: counts[n][s] - pre[n][s] for s in SYMS if counts[n][s] - pre[n][s]} for n in counts}}
    for (n, mode, f), r in zip(jobs, res):
        v.count()
        s, k = f[0], f[1]
        syms = [f[0]] if mode != "pair" else [f[0], f[2]]
        if mode == "failrand":
            s, syms = "random", list(SYMS)
        case = {"key": "%s %s %s" % (n, mode, " ".join("%s#%d" % (f[i], f[i + 1]) for i in range(0, len(f), 2))), "fam": "fault", "scenario": n, "sym": s, "k": k, "mode": mode}
        if r["crash"]:
            v.violation(case, r["crash"]["sig"], (r["crash"]["what"] + "\n" + r["crash"]["stderr"][-1200:]))
            continue
        recs = r["records"]
        w = recs[-1]
        inj = {x: int(w.split(" %s=" % x)[1].split("/")[1].split()[0]) for x in syms}
        if mode == "failrand":
            if not any(inj.values()):
                stats["random_schedules_without_fault"] = stats.get("random_schedules_without_fault", 0) + 1
        elif mode != "pair" and inj[s] < 1:
            v.inconclusive.append({"why": "failpoint did not fire", "case": case["key"], "report": w})
            continue
        if mode == "pair" and not (inj[f[0]] or inj[f[2]]):
            v.inconclusive.append({"why": "failpoint did not fire", "case": case["key"], "report": w})
            continue
        if mode == "pair" and not (inj[f[0]] and inj[f[2]]):
            stats["not_reached"] += 1  # the first refusal ended the call before the second operation was reached: a single fault after all
        stats["fired"] += 1
        stats["per_mode"][mode] += 1
        for x in syms:
            stats["per_symbol"][x] += 1 if inj[x] else 0
        cmds = S[n]
        at = cmds.index("@")
        # records: [0]=wrap reset, then one per command; the '@' line becomes TWO wrap commands
        rec_of = lambda i: recs[1 + i + (1 if i > at else 0)]
        ref_of = lambda i: ref[n][1 + i + (1 if i > at else 0)]
        bad = None
        # find the first API record after '@' that reports failure; every injected failure (except munmap) must be reported by some call
        reported = False
        for i in range(at + 1, len(cmds)):
            rr = rec_of(i).split()
            c0 = cmds[i].split()[0]
            if c0 == "new" and rr[0] == "N" and rr[1] == "0":
                reported = True
                break
            if c0 in ("asm", "cnt", "file", "filecnt") and rr[0] == "A" and rr[1] != "0":
                reported = True
                break
            if c0 in ("bin", "binover") and rr[0] == "B" and rr[1] != "0":
                reported = True
                break
        if not bad and not reported:
            # whatever was (not) reported: the observable end state must then be that of the fault-free run
            for i in range(at + 1, len(cmds)):
                if cmds[i] == "sumoff 0" and rec_of(i).split()[1:] != ref_of(i).split()[1:]:
                    bad = ("silent-failure-changes-result", "after the injected %s failure no call failed, but offset/code %s differ from the fault-free run %s" % (s, rec_of(i), ref_of(i)))
                if cmds[i].split()[0] in ("asm", "cnt", "file", "filecnt") and rec_of(i).split()[1:5] != ref_of(i).split()[1:5]:
                    bad = ("silent-failure-changes-result", "after the injected %s failure no call failed, but the call's results %s differ from the fault-free run %s" % (s, rec_of(i), ref_of(i)))
        if not bad and not reported and any(x in MUST_REPORT and inj[x] for x in syms):
            bad = ("failure-not-reported", "no call after the injected %s failure returned NULL/EXIT_FAILURE: %s" % (s, " | ".join(recs[at + 1:at + 6])))
        # earlier code intact; and code assembled by the calls after the failing one is where it belongs
        if not bad and "sumoff 0" in cmds[:at]:
            # a part whose RETRY failed as well is exempt (partial code), every other fingerprint must equal the fault-free run
            exempt = set()
            for i in range(at + 1, len(cmds)):
                if cmds[i].startswith("asm 0 ") and cmds[i - 1].startswith("setoff 0 "):
                    start = int(cmds[i - 1].split()[2])
                    if rec_of(i).split()[1] != "0":
                        exempt.add((start, start + 20000))
            for i in range(at + 1, len(cmds)):
                if cmds[i].startswith("sum 0 "):
                    lo, hi = int(cmds[i].split()[2]), int(cmds[i].split()[3])
                    if (lo, hi) in exempt:
                        continue
                    want = ref_of(i).split()[1]
                    if rec_of(i).split()[1] != want:
                        bad = ("earlier-code-corrupted" if hi <= 300 else "code-after-failure-misplaced", "fingerprint of [%d,%d) %s != %s" % (lo, hi, rec_of(i).split()[1], want))
                        break
        # bin success => file complete (the LAST successful bin call to a path decides what the file must hold)
        if not bad:
            last_ok = None
            for i in range(at + 1, len(cmds)):
                if cmds[i].split()[0] in ("bin", "binover"):
                    last_ok = i if rec_of(i).split()[1] == "0" else None  # a later call that reported failure leaves the file unspecified
            if last_ok is not None:
                i = last_ok
                path = cmds[i].split()[2]
                if path == "/dev/full":
                    bad = ("bin-success-on-full-device", rec_of(i))
                else:
                    path += uniq(mode, f)
                    # the code at the time of that call: [0, offset) - the scenario's final dump covers at least that; the offset at the
                    # call is the sum of what had been assembled successfully by then (scenarios dump exactly that range unless a later
                    # asm call failed, in which case the dump is cut to the length the file may have)
                    dump = [rec_of(j).split()[1] for j in range(i, len(cmds)) if cmds[j].startswith("dump 0 0 ")]
                    d = "" if not dump or dump[0] == "-" else dump[0]
                    try:
                        data = open(path, "rb").read().hex()
                    except OSError:
                        data = None
                    later_asm_failed = any(cmds[j].startswith("asm ") and rec_of(j).split()[1] != "0" for j in range(i, len(cmds)))
                    earlier_asm_failed = any(cmds[j].startswith("asm ") and rec_of(j).split()[1] != "0" for j in range(at, i))
                    if data is None:
                        bad = ("bin-success-but-file-incomplete", "no file")
                    elif earlier_asm_failed or later_asm_failed:
                        if not d.startswith(data[:600]) or len(data) < 600:
                            bad = ("bin-success-but-file-incomplete", "file has %d bytes and differs from the code" % (len(data) // 2))
                    elif data != d:
                        bad = ("bin-success-but-file-incomplete", "file has %d bytes, the code %d" % (len(data) // 2, len(d) // 2))
        if bad:
            v.violation(case, bad[0], bad[1])
        else:
            v.distinct((n, mode, f))
            if len(v.cov["samples"]) < 16 and k == 1 and mode != "pair":
                v.sample({"scenario": n, "failpoint": "%s %s#%d" % (mode, s, k), "records_after_fault": recs[at + 2:at + 5], "report": w.strip()})
    # ---- SYSCALL-level refusals (strace -e inject, filtered with -P to the file in question): they also reach the calls libc makes on
    # the library's behalf (the read() inside getdelim / fread, the write() inside fclose ...), which link-time wrapping cannot see
    import shutil, subprocess, re
    st = shutil.which("strace")
    stats["syscall_injections"] = 0
    if st:
        plainb = common.build("plain")
        big16 = os.path.join(wd, "c17-sys-16k.asm")
        with open(big16, "w") as f:
            f.write("mov rax, rbx ;..\n" * 1024)  # 16 KiB, 3072 bytes of code
        first = long_prog(300, 1)
        big = long_prog(20000, 7)
        SYS = {
            "Y1-file": (big16, ["new 0 int", "asm 0 %s" % common.hx(first), "file 0 %s" % big16, "sumoff 0", "sum 0 0 300", "del 0"], 2),
            "Y2-filecnt": (big16, ["new 0 int", "asm 0 %s" % common.hx(first), "filecnt 0 8 %s" % big16, "sumoff 0", "sum 0 0 300", "del 0"], 2),
            "Y3-bin": (os.path.join(wd, "c17-sys-out.bin"), ["new 0 int", "asm 0 %s" % common.hx(first), "bin 0 %s" % os.path.join(wd, "c17-sys-out.bin"), "dump 0 0 300", "sum 0 0 300", "del 0"], 2),
            "Y4-bin-20k": (os.path.join(wd, "c17-sys-out20.bin"), ["new 0 int", "asm 0 %s" % common.hx(first), "asm 0 %s" % common.hx(big), "bin 0 %s" % os.path.join(wd, "c17-sys-out20.bin"), "dump 0 0 20300", "sum 0 0 300", "del 0"], 3),
        }
        CALLS = {"read": "EIO", "pread64": "EIO", "readv": "EIO", "openat": "EMFILE", "close": "EIO", "newfstatat": "EIO", "fstat": "EIO", "statx": "EIO", "lseek": "ESPIPE", "mmap": "ENOMEM",
                 "write": "ENOSPC", "pwrite64": "ENOSPC", "writev": "ENOSPC", "ftruncate": "EIO", "fsync": "EIO", "fdatasync": "EIO", "rename": "EACCES", "renameat": "EACCES", "renameat2": "EACCES", "unlink": "EACCES",
                 "fallocate": "ENOSPC", "copy_file_range": "EIO", "sendfile": "EIO"}

        def srun(name, extra, tagx):
            path, cmds, api_idx = SYS[name]
            if name.startswith(("Y3", "Y4")):  # one output file per run: the runs execute in parallel
                cmds = [c.replace(path, path + "." + tagx) for c in cmds]
                path = path + "." + tagx
            sd = os.path.join(wd, "sys-%s-%s" % (name, tagx))
            os.makedirs(sd, exist_ok=True)
            script, recs, log = os.path.join(sd, "s.txt"), os.path.join(sd, "r.txt"), os.path.join(sd, "strace.log")
            with open(script, "w") as f:
                f.write("\n".join(cmds) + "\n")
            if name.startswith("Y3") or name.startswith("Y4"):
                try:
                    os.unlink(path)
                except OSError:
                    pass
            argv = [st, "-f", "-o", log, "-P", path, "-e", "trace=" + ",".join(sorted(CALLS))] + extra + [plainb, script, recs]
            try:
                r = subprocess.run(argv, capture_output=True, timeout=120)
            except subprocess.TimeoutExpired:
                return None
            try:
                rl = open(recs).read().splitlines()
            except OSError:
                rl = []
            try:
                lg = open(log, errors="replace").read()
            except OSError:
                lg = ""
            data = None
            if name.startswith(("Y3", "Y4")):
                try:
                    data = open(path, "rb").read().hex()
                except OSError:
                    data = None
            return {"rc": r.returncode, "records": rl, "log": lg, "file": data, "stderr": r.stderr.decode("latin-1")[-600:]}
        sjobs = []
        sref = {}
        for name in sorted(SYS):
            base0 = srun(name, [], "base")
            if base0 is None or len(base0["records"]) < len(SYS[name][1]):
                v.inconclusive.append({"why": "strace baseline run failed", "case": name})
                continue
            sref[name] = base0
            for call in sorted(CALLS):
                n = len(re.findall(r"^\d+\s+%s\(" % re.escape(call), base0["log"], re.M))
                for k in range(1, n + 1):
                    sjobs.append((name, call, k, ""))
                    sjobs.append((name, call, k, "+"))
        stats["syscalls_seen"] = {name: {c: len(re.findall(r"^\d+\s+%s\(" % re.escape(c), sref[name]["log"], re.M)) for c in CALLS if re.search(r"^\d+\s+%s\(" % re.escape(c), sref[name]["log"], re.M)} for name in sref}
        with common.ThreadPoolExecutor(max_workers=common.NPROC) as ex:
            souts = list(ex.map(lambda j: srun(j[0], ["-e", "inject=%s:error=%s:when=%d%s" % (j[1], CALLS[j[1]], j[2], j[3])], "%s-%d%s" % (j[1], j[2], "p" if j[3] else "")), sjobs))
        for (name, call, k, plus), o in zip(sjobs, souts):
            v.count()
            case = {"key": "%s syscall %s#%d%s refused" % (name, call, k, plus), "fam": "fault", "scenario": name, "sym": call, "k": k, "mode": "syscall" + plus}
            if o is None:
                v.violation(case, "crash:hang", None)
                continue
            if "(INJECTED)" not in o["log"]:
                v.inconclusive.append({"why": "injection did not fire", "case": case["key"]})
                continue
            path, cmds, api_idx = SYS[name]
            recs, ref0 = o["records"], sref[name]["records"]
            if len(recs) < len(cmds) or o["rc"] != 0:
                v.violation(case, "crash:exit=%s" % o["rc"], "records %d of %d\n%s" % (len(recs), len(cmds), o["stderr"]))
                continue
            api = recs[api_idx].split()
            reported = api[1] != "0"
            bad = None
            if not reported:
                for i in range(api_idx, len(cmds)):
                    if cmds[i].split()[0] in ("sumoff", "file", "filecnt") and recs[i].split()[1:5] != ref0[i].split()[1:5]:
                        bad = ("silent-failure-changes-result", "after the refused %s no call failed, but %s differs from the fault-free run %s" % (call, recs[i], ref0[i]))
                if not bad and name.startswith(("Y3", "Y4")):
                    d = [recs[i].split()[1] for i in range(len(cmds)) if cmds[i].startswith("dump ")][0]
                    if o["file"] != d:
                        bad = ("bin-success-but-file-incomplete", "file has %s bytes, the code %d" % (None if o["file"] is None else len(o["file"]) // 2, len(d) // 2))
            if not bad:
                i = [j for j in range(len(cmds)) if cmds[j].startswith("sum 0 0 300")][0]
                if recs[i] != ref0[i]:
                    bad = ("earlier-code-corrupted", "%s != %s" % (recs[i], ref0[i]))
            if bad:
                v.violation(case, bad[0], bad[1])
            else:
                stats["syscall_injections"] += 1
                v.distinct((name, "sys", call, k, plus))
    # the real ENOSPC path without injection
    for n, r in zip(names, base):
        if n == "S5-bin-devfull" and not r["crash"]:
            v.count()
            b = [x for x in r["records"] if x.startswith("B ")][0]
            if b.split()[1] == "0":
                v.violation({"key": n + " (no injection)", "fam": "fault", "scenario": n}, "bin-success-on-full-device", b)
            else:
                v.distinct((n, "real-ENOSPC"))
    v.cov["rule"] = ("fault enumeration: for each of {N} API scenarios (create on internal/caller buffer; 20 kB assembly with 3 growths in plain / fitting / counting mode; a 200 kB assembly in ten calls (about 33 growths) that continues after the refused growth; file and file-counting assembly of a 3-page file, "
                     "on a caller buffer, twice, of an empty file, with growth of the code buffer during the file call, with short and interrupted reads, of a file longer than its stat size; "
                     "binary output to a file (nothing assembled, over an existing longer file, twice, 20 kB) and to /dev/full; fail-then-continue-then-bin) a counting run records how often each of {SYMS} is called after the arming "
                     "point (operations the library does not call have no failpoints), then one run per (operation, k) refuses exactly that call, one run refuses that call and all later ones, and runs with two refusals of different operations (quick: first calls; thorough: all pairs, plus 150 random fault schedules per scenario in which every call is refused with probability 2 / 10 / 30 %). Checked: no crash/sanitizer report, the failure is reported by NULL/EXIT_FAILURE (munmap: no crash only), "
                     "[0,300) assembled earlier is intact, the instance can be destroyed, bin EXIT_SUCCESS only with a complete file. Plus syscall-level refusals (strace -e inject, filtered to the input / output file with -P): every read / openat / close / fstat / mmap / write ... on that file, once and persistently, in file assembly of a 16 KiB file and binary output of 300 bytes / 20 kB - these also reach the calls libc makes internally (getdelim, stdio)").format(N=len(names), SYMS=", ".join(SYMS))
    v.cov["exhaustive"] = True
    v.cov.update(stats)
    return v.finish(None, stats["fired"] >= 15 and stats["fired"] == len(jobs), "failpoints fired %d of %d" % (stats["fired"], len(jobs)))
