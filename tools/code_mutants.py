#!/usr/bin/env python3
"""tools/code_mutants.py [--files a.c,b.c] [--max N] [--out file.json] [--stage2]

Source-mutation campaign over the line-level code of the library (tokenizer, parsers, encoder, assembler, prefix): every
mutant is one small syntactic change (relational operator, boolean connective, +/-1 on a literal, dropped '!', swapped
true/false, deleted assignment) applied to a scratch copy of /repo/src - never to /repo. Only the changed file is
recompiled and linked with cached objects of the others.

Stage 1 (differential): a fixed corpus drawn from the same generators the checks use (C01-C05 lines, C10 bad lines, option
combinations for the option-sensitive lines, 4-line programs, C16 rewritings) is assembled by the mutant and compared with
the unchanged build. A mutant that changes any (rc, bytes) is "noticed" - the oracles of C01-C06/C10/C11/C16 see those
very outputs. Stage 2 (--stage2): the silent ones are rebuilt with ASan+UBSan and run again: a sanitizer report means C09's
monitors notice it. What remains silent is listed per function: equivalent mutants, or blind spots of the workloads.
Nothing here is a registered check; it measures the reach of the workloads (DESIGN.md section 9)."""
import json, os, re, shutil, subprocess, sys, random, tempfile
sys.path.insert(0, os.path.dirname(os.path.dirname(os.path.abspath(__file__))))
from vlib import common, isa, enc  # noqa: E402

FILES = ["assembler.c", "encoder.c", "tokenizer.c", "reg_parser.c", "prefix.c", "parser.c", "instr_parser.c", "registers.c"]


def corpus():
    rnd = random.Random(777)
    items = []
    cases = rnd.sample(isa.gen_int_regs(), 20000)
    cases += isa.gen_bmi_regs(corners_only=True, rnd=rnd, frac=0.02)
    cases += isa.gen_vec_regs(corners_only=True, rnd=rnd, frac=0.02)
    cases += isa.gen_adx()[:400]
    cases += isa.gen_mem(False, rnd, per_class=400)
    cases += isa.gen_imm(rnd, False)
    cases += isa.gen_branch(rnd, 32, False) + isa.gen_branch_indirect() + isa.gen_far(rnd)
    texts = sorted(set(c["text"] for c in cases))
    for t in texts:
        items.append(("211", t, 0))
    sens = [c["text"] for c in cases if (c["fam"] == "imm_ri" and c["mn"] == "mov") or c.get("index") in ("rsp", "esp") or (c.get("index") and not c.get("base"))]
    for t in sorted(set(sens))[:6000]:
        for m in enc.COMBOS:
            if m != "211":
                items.append((m, t, 0))
    # bad lines
    from vlib.props import c10
    dummy = common.Verdict("C10", "tool")
    undef, _, _ = c10.undefined_tuples(c10.mnemonics(), dummy)
    bad = []
    for (m, t) in undef:
        o = c10.instantiations(t, False)[0]
        bad.append(("%s %s" % (m, ", ".join(o))).strip())
    for (r, c) in c10.reg_typos():
        bad.append("mov %s, rbx" % c if r[0] not in "xym" else "paddb %s, xmm1" % c)
    bad += ["lea rax, [rbx+rcx*3]", "lea rax, [rbx+rsp*2]", "mov rax, [rbx", "mov rax, 5, rbx", "bogus rax", "mov rax,, rbx", "lea rax, [rsp+rsp]", "jmp [rbx+rcx*5]", "push qword [rax+rsp*4]"]
    for t in rnd.sample(bad, min(len(bad), 25000)):
        items.append(("211", t, 0))
    # programs of 4 lines
    for _ in range(4000):
        items.append(("211", "\n".join(rnd.choice(texts) for _ in range(4)), 0))
    # rewritings
    from vlib.props import c16
    for t in rnd.sample(texts, 15000):
        name, f = rnd.choice(c16.REWRITES)
        items.append(("211", f(t, rnd), 0))
    return items


OPS = [
    (r"<=", [">", "<"]), (r">=", ["<", ">"]), (r"(?<![<>=!-])<(?![<=])", ["<="]), (r"(?<![<>=!-])>(?![>=])", [">="]),
    (r"==", ["!="]), (r"!=", ["=="]), (r"&&", ["||"]), (r"\|\|", ["&&"]),
    (r"(?<![|&])\|=", ["&="]), (r"(?<![|&])&=", ["|="]), (r"\+=", ["-="]), (r"-=", ["+="]),
    (r"\btrue\b", ["false"]), (r"\bfalse\b", ["true"]),
    (r"!(?=[A-Za-z_(])", [""]),
    (r"\b0x[0-9a-fA-F]+\b", ["+1", "-1"]), (r"(?<![\w.])[1-9][0-9]*\b", ["+1", "-1"]),
    (r"\+\+", ["--"]),
]


def mutants_of(path):
    lines = open(path).read().split("\n")
    out = []
    incomment = False
    func = "?"
    for i, l in enumerate(lines):
        s = l.strip()
        m = re.match(r"^(?:static\s+)?[A-Za-z_][\w\s\*]*?\b([a-z_A-Z0-9]+)\s*\([^;]*$", l)
        if m and not l.startswith(" ") and not s.startswith(("//", "/*", "*", "#")):
            func = m.group(1)
        if incomment:
            if "*/" in s:
                incomment = False
            continue
        if s.startswith("/*"):
            if "*/" not in s:
                incomment = True
            continue
        if not s or s.startswith(("//", "#", "*")) or "fprintf" in s or "FAIL_SYS" in s:
            continue
        code = l.split("//")[0]
        for pat, reps in OPS:
            for mt in re.finditer(pat, code):
                for rep in reps:
                    tok = mt.group(0)
                    if rep in ("+1", "-1"):
                        v = int(tok, 0) + (1 if rep == "+1" else -1)
                        if v < 0:
                            continue
                        new = ("0x%x" % v) if tok.lower().startswith("0x") else str(v)
                    else:
                        new = rep
                    ml = code[:mt.start()] + new + code[mt.end():]
                    out.append((i, func, "%s -> %s" % (tok, new or "(removed)"), ml))
        # delete a plain assignment statement
        if re.match(r"^\s+[A-Za-z_][\w\->\.\[\]]*\s*(\|=|&=|=)\s*[^=].*;\s*$", code) and "for" not in code:
            out.append((i, func, "statement deleted", re.match(r"^\s*", code).group(0) + ";"))
    return lines, out


def main():
    a = sys.argv[1:]
    files, mx, outp, stage2 = FILES, None, None, False
    while a:
        k = a.pop(0)
        if k == "--files":
            files = a.pop(0).split(",")
        elif k == "--max":
            mx = int(a.pop(0))
        elif k == "--out":
            outp = a.pop(0)
        elif k == "--stage2":
            stage2 = True
    items = corpus()
    print("corpus: %d assemblies" % len(items), flush=True)
    scratch = tempfile.mkdtemp(prefix="cm-", dir="/tmp")
    src = os.path.join(scratch, "src")
    shutil.copytree(os.path.join(common.REPO, "src"), src)
    hdir = os.path.join(common.VERIF, "harness")

    def objs(flav, flags):
        d = os.path.join(scratch, "o-" + flav)
        os.makedirs(d, exist_ok=True)
        for f in sorted(os.listdir(src)):
            if f.endswith(".c"):
                subprocess.run(["gcc"] + flags + ["-w", "-I" + src, "-c", os.path.join(src, f), "-o", os.path.join(d, f[:-2] + ".o")], check=True)
        subprocess.run(["gcc"] + flags + ["-w", "-mno-red-zone", "-I" + src, "-c", os.path.join(hdir, "driver.c"), "-o", os.path.join(d, "driver.o")], check=True)
        return d

    PL = ["-O1", "-g0"]
    SAN = ["-O1", "-g", "-fsanitize=address,undefined", "-fno-sanitize-recover=all", "-fno-omit-frame-pointer", "-DHAVE_ASAN"]
    dpl = objs("plain", PL)
    dsan = objs("asan", SAN) if stage2 else None

    def key(r):
        return ("crash",) if "crash" in r else (r["rc"], r["bytes"] if r["rc"] == 0 else "")

    base_bin = _link(dpl, PL, os.path.join(src, "registers.c"), "registers.c", scratch, src, "base")
    base = [key(r) for r in common.run_lines(base_bin, items, tag="cm-base")]
    prnd = random.Random(99)
    pidx = sorted(prnd.sample(range(len(items)), 400))
    probe_items = [items[i] for i in pidx]
    probe_base = [base[i] for i in pidx]
    report = {"corpus": len(items), "mutants": 0, "not_compiling": 0, "noticed": 0, "noticed_by_sanitizer": 0, "silent": [], "per_file": {}}
    rnd = random.Random(4242)
    for f in files:
        path = os.path.join(src, f)
        lines, muts = mutants_of(path)
        if mx and len(muts) > mx:
            muts = rnd.sample(muts, mx)
        st = {"mutants": 0, "noticed": 0, "silent": 0, "not_compiling": 0, "noticed_by_sanitizer": 0}
        for (i, func, what, ml) in muts:
            mpath = os.path.join(scratch, "m_" + f)
            with open(mpath, "w") as fh:
                fh.write("\n".join(lines[:i] + [ml] + lines[i + 1:]))
            # compile from the scratch src dir so that relative includes resolve
            tmpc = os.path.join(src, "__mut__.c")
            shutil.copy(mpath, tmpc)
            binp = _link(dpl, PL, tmpc, f, scratch, src)
            if not binp:
                os.unlink(tmpc)
                st["not_compiling"] += 1
                continue
            st["mutants"] += 1
            # a small probe first (most mutants show at once; a mutant that hangs on every line must not cost 20 s per line)
            res = common.run_lines(binp, probe_items, tag="cm-p", nproc=16, prelude=["watchdog 2"])
            diff = sum(1 for b, r in zip(probe_base, res) if b != key(r))
            if not diff:
                res = common.run_lines(binp, items, tag="cm-m", nproc=16, prelude=["watchdog 5"])
                diff = sum(1 for b, r in zip(base, res) if b != key(r))
            desc = "%s:%d %s(): %s   | %s" % (f, i + 1, func, what, ml.strip()[:110])
            if diff:
                st["noticed"] += 1
            else:
                hit = False
                if stage2:
                    b2 = _link(dsan, SAN, tmpc, f, scratch, src, "san")
                    if b2:
                        r2 = common.run_lines(b2, probe_items, tag="cm-sp", nproc=16, prelude=["watchdog 5"])
                        hit = any("crash" in r for r in r2)
                        if not hit:
                            r2 = common.run_lines(b2, items, tag="cm-s", nproc=16, prelude=["watchdog 5"])
                            hit = any("crash" in r for r in r2)
                if hit:
                    st["noticed_by_sanitizer"] += 1
                else:
                    st["silent"] += 1
                    report["silent"].append(desc)
                    print("SILENT " + desc, flush=True)
            os.unlink(tmpc)
        report["per_file"][f] = st
        for k in ("mutants", "noticed", "not_compiling", "noticed_by_sanitizer"):
            report[k] += st[k]
        print(f, st, flush=True)
        if outp:
            json.dump(report, open(outp, "w"), indent=1)
    shutil.rmtree(scratch, ignore_errors=True)
    print(json.dumps({k: v for k, v in report.items() if k != "silent"}))


def _link(d, flags, changed_c, orig_name, scratch, src, tag="pl"):
    o = os.path.join(scratch, "mut-%s.o" % tag)
    r = subprocess.run(["gcc"] + flags + ["-w", "-I" + src, "-c", changed_c, "-o", o], capture_output=True, text=True)
    if r.returncode:
        return None
    binp = os.path.join(scratch, "drv-mut-%s" % tag)
    others = [os.path.join(d, x) for x in os.listdir(d) if x.endswith(".o") and x != orig_name[:-2] + ".o"]
    r = subprocess.run(["gcc"] + flags + others + [o, "-o", binp], capture_output=True, text=True)
    return binp if r.returncode == 0 else None


if __name__ == "__main__":
    main()
