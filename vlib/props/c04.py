"""C04 - MMX/SSE/AVX/AVX2/BMI2 forms: prefixes, VEX fields, registers."""
from .. import common, isa, enc


def run(tier):
    v = common.Verdict("C04", tier)
    binary = common.build("asan")
    rnd = common.rng("c04")
    full = tier == "thorough"
    cases = isa.gen_vec_regs(corners_only=not full, rnd=rnd, frac=0.05)
    cases += isa.gen_bmi_regs(corners_only=not full, rnd=rnd, frac=0.05)
    cases += isa.gen_adx()
    # the vector / VEX / BMI2 forms with a MEMORY operand (X and B extension bits, 0x67, VEX.X): a sample of the address shapes per
    # class here (C02 owns the full shape product); through enc.run they also go through the second encoding under chunk fitting,
    # counting and the other contexts
    VEC_FORMS = ("sse_", "movd_", "movq_", "mmx_", "vex_", "avx_", "bmi_", "rorx_", "adx_", "vperm", "hint_")
    memc = [c for c in isa.gen_mem(False, rnd, per_class=40 if not full else 600) if c["form"].startswith(VEC_FORMS) or c["fam"].startswith(("vec", "vex", "sse", "mmx", "avx"))]
    st_mem = len(memc)
    cases += memc

    def combos_for(c):
        if "index" in c:  # a memory form: the SIB options have documented effects on some shapes (C02 / C11 own those)
            return [enc.DEFAULT]
        if full:
            return [enc.DEFAULT, "000", "100"]
        return [enc.DEFAULT] + ([rnd.choice(enc.COMBOS)] if rnd.random() < 0.1 else [])

    st = enc.run(v, cases, binary, combos_for)
    # ---- execution monitor for the BMI2 / ADX register forms (vlib/sem.py)
    from .. import sem
    plain = common.build("plain")
    bm = [c for c in cases if c["fam"] in ("bmi_rrr", "rorx_rri", "adx_rr") and c["mn"] != "mulx"]
    bm = rnd.sample(bm, min(len(bm), 3000 if not full else 40000))
    ex, exmeta = [], []
    for c in bm:
        pr = sem.program(c, rnd)
        if pr is None:
            continue
        ex.append(["new 0 int", "asm 0 %s" % common.hx("\n".join(pr[0])), "exec 0"])
        exmeta.append((c, pr[0], pr[1]))
    exres = common.run_cases(plain, ex, tag="c04x")
    exec_ok = 0
    for (c, prog, want), cmds, r in zip(exmeta, ex, exres):
        v.count()
        cc = {k: x for k, x in c.items() if k not in ("exp", "alt")}
        cc.update({"key": "exec " + c["text"], "fam": "exec_" + c["fam"], "script": cmds})
        if r["crash"]:
            v.violation(cc, r["crash"]["sig"], r["crash"]["stderr"][-600:])
            continue
        a, e = r["records"][1].split(), r["records"][2].split()
        if a[1] != "0":
            v.violation(cc, "exec:rejected", r["records"][1])
        elif e[:2] != ["V", "ok"] or int(e[2], 16) != want:
            v.violation(cc, "exec:computes-differently", "program %s -> %s, model 0x%x" % ("; ".join(prog), " ".join(e), want))
        else:
            exec_ok += 1
            v.distinct(("exec", c["text"]))
    st["vector_memory_form_cases"] = st_mem
    st["bmi_executions"] = len(ex)
    st["bmi_executions_ok"] = exec_ok
    v.cov["rule"] = ("every vector / VEX register-only form of the committed spec x register tuples: %s; VEX.L observed as xmm/ymm names, VEX.W as 32/64-bit "
                     "register names, vvvv and inverted R/X/B as register numbers; plus a sample of the same families with a memory operand over the address shapes (X / B bits, 0x67, VEX.X), all also under chunk fitting (second encoding), counting and other contexts; distinct = (text, bytes) accepted and read back as expected by both decoders"
                     % ("the complete register product" if full else "all two-operand tuples, all three-operand tuples with each operand in {0,7,8,15} plus a seeded 5%"))
    v.cov["exhaustive"] = full
    v.assumptions += ["LLVM-MC and libopcodes decode correctly where nasm's encoding of the same line validates them"]
    floor = st["held"] > 1000 and st["reference_validated_cases"] >= 0.999 * st["cases"]
    return v.finish(st, floor, "too few judged cases or reference side not validated: %r" % st)
