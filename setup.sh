#!/bin/sh
# Run once after a fresh restore (offline): builds the decoder helper used by the
# decode oracle. Everything else is rebuilt per check from /repo's working tree.
set -e
cd "$(dirname "$0")"
mkdir -p bin evidence work replay
python3 - <<'PY'
import sys
sys.path.insert(0, ".")
from vlib import oracle
print("decode helper:", oracle.ensure_decode())
PY
