"""C06 - a program's code is the concatenation of its lines' code, however it is fed."""
import itertools
from .. import common, corpus


def run(tier):
    v = common.Verdict("C06", tier)
    full = tier == "thorough"
    rnd = common.rng("c06")
    binary = common.build("asan")
    rep = corpus.representative(rnd, 1, cap=170)
    # the option-sensitive lines (SMART spelling rule, stack-pointer index, no-base scale) and lines that set per-line option bits
    # (short / decimal immediates) are always members: state leaking from one line into the next of the same call shows on them
    PROBES = ["mov rax, 0x000000007fffffff", "mov rcx, 0x7fffffff", "mov rdx, 2147483647", "mov r9, 0x0000000000000001", "lea r15, [rax+rsp]", "lea r14, [2*rax]",
              "add rcx, 5", "shl rdx, 3", "mov rcx, 0x10", "mov qword [rbx+rsp], 5", "vpaddb ymm1, ymm2, [4*r12+8]",
              # branches of each kind (their displacement is the operand, wherever they stand and however many there are in a call)
              "jmp 0x10", "jne long -0x80", "call 0x12345", "jrcxz 5", "jmp short -3"]
    lines = sorted(set(c["text"] for c in rep) | set(PROBES))
    masks = ["211", "000", "111"]
    alone = {m: corpus.accepted_alone(binary, lines + corpus.SKIP_LINES, m) for m in masks}
    R = [l for l in lines if all(l in alone[m] for m in masks)]
    skip = [l for l in corpus.SKIP_LINES if l in alone["211"] and alone["211"][l] == ""]
    stats = {"representative_lines": len(R), "skip_lines": len(skip), "pairs": 0, "programs": 0, "split_cases": 0, "repeat_cases": 0}

    def enc(prog, m):
        return "".join(alone[m][l] for l in prog)

    skip = [l for l in skip if all(l in alone[m] for m in masks)]
    if len(R) < 20:
        v.violation({"key": "representative lines", "fam": "precondition"}, "precondition:valid-lines-rejected", "only %d of %d representative lines are accepted alone under all option sets" % (len(R), len(lines)))
        return v.finish()

    # (1) all ordered pairs (state leak l1 -> l2), default options; thorough: all three masks
    items, meta = [], []
    for m in masks:
        for a in R + skip[:3]:
            for b in R + skip[:3]:
                if not full and m != masks[0] and a not in PROBES and b not in PROBES:
                    continue
                items.append((m, a + "\n" + b, 0))
                meta.append((m, (a, b)))
    res = common.run_lines(binary, items, tag="c06p")
    for (m, prog), r in zip(meta, res):
        v.count()
        stats["pairs"] += 1
        case = {"key": "pair[%s]: %s || %s" % (m, prog[0], prog[1]), "fam": "pair", "combo": m}
        if "crash" in r:
            v.violation(case, r["crash"]["sig"], r["crash"]["stderr"][-800:])
            continue
        exp = enc(prog, m)
        if r["rc"] != 0:
            v.violation(case, "pair-rejected", None)
        elif r["bytes"] != exp or r["off"] != len(exp) // 2:
            v.violation(case, "pair!=concat", "got %s exp %s off %d" % (r["bytes"], exp, r["off"]))
        else:
            v.distinct(("pair", m) + prog)
    # (2) programs x splits x start offsets x prefill x repetition, via scripted instances
    cases, cmeta = [], []
    nprog = 400 if not full else 6000
    fills = [0x00, 0xCC, 0xFF, 0x90, 0x66, 0x0F, 0xC3, 0x48]
    for k in range(nprog):
        m = masks[k % 3]
        n = rnd.choice([3, 4, 5, 6, 7]) if k % 2 == 0 else rnd.randrange(8, 201)
        prog = [rnd.choice(R + skip) for _ in range(n)]
        exp = enc(prog, m)
        L = len(exp) // 2
        start = rnd.choice([0, 1, 19, 4095]) if k % 6 else rnd.choice([63, 4096 + 63, 65535, 65536, 70001, 200000])
        if n <= 7 and k % 4 == 0:
            splits = []
            for bits in itertools.product((0, 1), repeat=n - 1):
                parts, cur = [], [prog[0]]
                for b, l in zip(bits, prog[1:]):
                    if b:
                        parts.append(cur)
                        cur = [l]
                    else:
                        cur.append(l)
                parts.append(cur)
                splits.append(parts)
        else:
            splits = [[prog]]
            for _ in range(3):
                cuts = sorted(rnd.sample(range(1, n), min(n - 1, rnd.randrange(1, 6))))
                parts, last = [], 0
                for c in cuts + [n]:
                    parts.append(prog[last:c])
                    last = c
                splits.append(parts)
        for parts in splits:
            fill = rnd.choice(fills)
            cmds = ["new 0 ext %d H 0x%02x" % (start + L + 64, fill), "opt 0 mask %s" % m, "setoff 0 %d" % start]
            for p in parts:
                # trailing newline or not, CRLF or LF must not matter for line boundaries
                sep = "\n"
                cmds.append("%s 0 %s" % ("asmold" if k % 7 == 3 else "asm", common.hx(sep.join(p) + (sep if rnd.random() < 0.5 else ""))))  # k % 7 == 3: deprecated alias assemble_str()
            cmds.append("getoff 0")
            cmds.append("dump 0 %d %d" % (start, start + L))
            rep2 = rnd.random() < 0.3
            if rep2:
                cmds += ["setoff 0 %d" % start, "asm 0 %s" % common.hx("\n".join(prog)), "getoff 0", "dump 0 %d %d" % (start, start + L)]
            cases.append(cmds)
            cmeta.append((m, prog, parts, start, exp, rep2))
    res = common.run_cases(binary, cases, tag="c06s")
    for (m, prog, parts, start, exp, rep2), cmds, r in zip(cmeta, cases, res):
        v.count()
        stats["programs"] += 1
        stats["split_cases"] += len(parts) > 1
        case = {"key": "prog[%s] n=%d start=%d parts=%s first=%s" % (m, len(prog), start, [len(p) for p in parts][:12], prog[0]), "fam": "program", "combo": m, "script": cmds}
        if r["crash"]:
            v.violation(case, r["crash"]["sig"], r["crash"]["stderr"][-800:])
            continue
        recs = r["records"]
        L = len(exp) // 2
        npart = len(parts)
        bad = None
        for i in range(npart):
            a = recs[3 + i].split()
            if a[1] != "0":
                bad = ("part-rejected", "part %d: %s" % (i, " ".join(a)))
                break
        if not bad:
            off = int(recs[3 + npart].split()[1])
            dump = recs[4 + npart].split()[1]
            dump = "" if dump == "-" else dump
            if off != start + L:
                bad = ("offset!=start+total", "off=%d start=%d total=%d" % (off, start, L))
            elif dump != exp:
                bad = ("program!=concat", "got %s exp %s" % (dump[:200], exp[:200]))
        if not bad and rep2:
            stats["repeat_cases"] += 1
            a = recs[6 + npart].split()
            off = int(recs[7 + npart].split()[1])
            dump = recs[8 + npart].split()[1]
            dump = "" if dump == "-" else dump
            if a[1] != "0" or off != start + L or dump != exp:
                bad = ("repetition-differs", "rc=%s off=%d got %s" % (a[1], off, dump[:200]))
        if bad:
            v.violation(case, bad[0], bad[1])
        else:
            v.distinct(("prog", m, tuple(prog), tuple(len(p) for p in parts), start))
            if stats["programs"] % 400 == 1:
                v.sample({"program_lines": prog[:6], "n": len(prog), "parts": [len(p) for p in parts], "start": start, "opts": m, "bytes": exp[:80]})
    # (3) the initial buffer contents are the code of a SIBLING program: the same lines with other constants (and, half of the
    # time, the very same program), so that what is already in the buffer resembles what is about to be written
    import re
    NUM = re.compile(r"(?<![A-Za-z0-9_*])(0[xX][0-9a-fA-F]+|[0-9]+)(?![A-Za-z0-9*])")

    def sibling(line, how):
        def f(mm):
            t = mm.group(1)
            val = int(t, 16) if t[:2].lower() == "0x" else int(t)
            nv = val ^ (1 if how == 0 else (0x55 if val > 0xff else 2))
            return ("0x%x" % nv) if t[:2].lower() == "0x" else str(nv)
        return NUM.sub(f, line)

    cases, smeta = [], []
    nsib = 600 if not full else 12000
    for k in range(nsib):
        m = masks[k % 3]
        prog = [rnd.choice(R) for _ in range(rnd.randrange(1, 9))]
        if k % 2 == 0:  # make sure lines with constants are there
            withnum = [l for l in R if NUM.search(l)]
            prog[rnd.randrange(len(prog))] = rnd.choice(withnum)
        exp = enc(prog, m)
        L = len(exp) // 2
        start = rnd.choice([0, 1, 19, 4095])
        sib = [sibling(l, k % 2) for l in prog] if k % 4 else list(prog)
        cmds = ["new 0 ext %d H 0x%02x" % (start + L + 96, rnd.choice(fills)), "opt 0 mask %s" % m, "setoff 0 %d" % start, "asm 0 %s" % common.hx("\n".join(sib)),
                "setoff 0 %d" % start, "asm 0 %s" % common.hx("\n".join(prog)), "getoff 0", "dump 0 %d %d" % (start, start + L)]
        cases.append(cmds)
        smeta.append((m, prog, sib, start, exp))
    res = common.run_cases(binary, cases, tag="c06b")
    stats["sibling_prefill_cases"] = 0
    for (m, prog, sib, start, exp), cmds, r in zip(smeta, cases, res):
        v.count()
        case = {"key": "sibling-prefill[%s] start=%d %s" % (m, start, prog[:4]), "fam": "prefill", "combo": m, "script": cmds}
        if r["crash"]:
            v.violation(case, r["crash"]["sig"], r["crash"]["stderr"][-800:])
            continue
        recs = r["records"]
        a = recs[5].split()
        off = int(recs[6].split()[1])
        dump = recs[7].split()[1]
        dump = "" if dump == "-" else dump
        if a[1] != "0" or off != start + len(exp) // 2:
            v.violation(case, "prefilled:rc/offset-differs", "rc=%s off=%d want %d" % (a[1], off, start + len(exp) // 2))
        elif dump != exp:
            v.violation(case, "prefilled:bytes-depend-on-buffer-contents", "got %s exp %s (buffer held the code of %r)" % (dump[:160], exp[:160], sib[:3]))
        else:
            stats["sibling_prefill_cases"] += 1
            v.distinct(("sib", m, tuple(prog), start))
    # (5) MANY lines in one call: a line (or a pair of lines) repeated 300 and 66 000 times - more than 255 / 65535 lines, branches,
    # immediates ... of one kind in a call; the code is the repetition of the line's code (compared through a fingerprint)
    def fnv(hexs):
        h = 1469598103934665603
        for b in bytes.fromhex(hexs):
            h = ((h ^ b) * 1099511628211) & 0xFFFFFFFFFFFFFFFF
        return "%016x" % h
    fam_first = {}
    for l in R:
        fam_first.setdefault(l.split()[0], l)
    pick = sorted(fam_first.values())
    pick = [l for l in pick if alone["211"][l]]
    reps = PROBES[:6] + [l for l in PROBES[-5:] if l in R] + rnd.sample(pick, min(len(pick), 14 if not full else 60))
    rcases, rmeta = [], []
    for i, l in enumerate(reps):
        for N in ((300, 66000) if (full or i % 4 == 0) else (300,)):
            other = rnd.choice(pick)
            for prog in ([l] * N, [l, other] * (N // 2)):
                m = masks[i % 3]
                exp = enc(prog[:2], m) * (len(prog) // 2)
                rcases.append(["new 0 int", "opt 0 mov %s" % m[0], "opt 0 swap %s" % m[1], "opt 0 nobase %s" % m[2], "asm 0 %s" % common.hx("\n".join(prog)), "sumoff 0"])
                rmeta.append((l, prog[1], N, m, exp))
    rres = common.run_cases(binary, rcases, tag="c06r", per_case_timeout=120)
    stats["repetition_cases"] = 0
    for (l, l2, N, m, exp), cmds, r in zip(rmeta, rcases, rres):
        v.count()
        case = {"key": "repeat %r / %r x %d [%s]" % (l, l2, N, m), "fam": "concat_repeat", "n": N}
        if r["crash"]:
            v.violation(case, r["crash"]["sig"], r["crash"]["stderr"][-800:])
            continue
        a, so = r["records"][4].split(), r["records"][5].split()
        if a[1] != "0" or int(so[1]) != len(exp) // 2:
            v.violation(case, "repeated:rc/offset-differs", "rc=%s off=%s want %d" % (a[1], so[1], len(exp) // 2))
        elif so[2] != fnv(exp):
            v.violation(case, "repeated:bytes-differ-from-repetition", "fingerprint %s want %s" % (so[2], fnv(exp)))
        else:
            stats["repetition_cases"] += 1
            v.distinct(("rep", l, l2, N, m))
    # (6) programs whose lines come from the WHOLE corpus (every mnemonic, operand width and addressing combination - R has one line per
    # structural group only): 3-14 lines, often several lines of the same mnemonic with other operands, one / two zero-operand or
    # many-operand lines in between; under the three option combinations; in one call and split in two
    from .. import isa
    pool = rnd.sample(isa.gen_int_regs(), 5000) + isa.gen_vec_regs(corners_only=True, rnd=rnd, frac=0.0) + isa.gen_mem(False, rnd, per_class=10) + rnd.sample(isa.gen_imm(rnd, False), 4000)
    ptexts = sorted(set(c["text"] for c in pool if not c["text"].startswith(("j", "call", "xbegin", "ret", "loop"))))
    if not full:
        ptexts = rnd.sample(ptexts, min(len(ptexts), 9000))
    BRANCHES = ["jmp 0x10", "jne long -0x80", "call 0x12345", "jmp short -3", "jrcxz 5", "jb 0x7f", "call -0x7ffffff0", "jmp long 0x12345678", "jg short 0x10", "xbegin 0x100"]
    ptexts = sorted(set(ptexts) | set(BRANCHES))
    palone = {m: corpus.accepted_alone(binary, ptexts, m) for m in masks}
    pok = [t for t in ptexts if all(t in palone[m] and palone[m][t] for m in masks)]
    bym = {}
    for t in pok:
        bym.setdefault(t.split()[0], []).append(t)
    pm = sorted(bym)
    FILLERS = [l for l in ("clc", "cdq", "cqo", "lfence", "nop", "ret", "vzeroupper", "vperm2i128 ymm1, ymm2, ymm3, 0x20", "shld rax, rbx, 5", "; c", "lbl:") if l in alone["211"] or l in ("; c", "lbl:")]
    items, pmeta = [], []
    for k in range(1500 if not full else 40000):
        prog = []
        for _ in range(rnd.randrange(2, 8)):
            mn = rnd.choice(pm)
            prog += rnd.sample(bym[mn], min(len(bym[mn]), rnd.choice([1, 1, 2, 3])))
            if rnd.random() < 0.4:
                prog.append(rnd.choice(FILLERS))
        m = masks[k % 3]
        items.append((m, "\n".join(prog), 0))
        pmeta.append((m, prog))
    pres = common.run_lines(binary, items, tag="c06w")
    stats["whole_corpus_programs"] = 0
    for (m, prog), r in zip(pmeta, pres):
        v.count()
        case = {"key": "corpus program [%s] %s" % (m, " | ".join(prog)[:300]), "fam": "concat_corpus", "combo": m, "program": prog}
        if "crash" in r:
            v.violation(case, r["crash"]["sig"], r["crash"]["stderr"][-800:])
            continue
        exp = "".join(palone[m][l] if l in palone[m] else alone[m].get(l, "") for l in prog)
        if r["rc"] != 0 or r["bytes"] != exp:
            v.violation(case, "program!=concatenation-of-its-lines", "rc=%s got %s want %s" % (r["rc"], (r.get("bytes") or "")[:200], exp[:200]))
        else:
            stats["whole_corpus_programs"] += 1
            v.distinct(("corp", m, tuple(prog)))
    # (7) NEAR-DUPLICATE neighbours: consecutive lines that are variations of one line - same text up to the last digit of the
    # displacement / immediate or up to the last register, also with numbers zero-padded so that the common prefix is 40-90 characters
    # long. Anything that recognises "the same line again" by less than the whole text shows here.
    import re as _re
    REGSWAP = {"rax": "rcx", "rcx": "rdx", "rbx": "rsi", "rdx": "rbx", "r8": "r9", "r9": "r10", "r10": "r11", "r11": "r9", "r12": "r14", "r13": "r15", "eax": "ecx", "ecx": "edx", "r9d": "r10d",
               "ax": "cx", "al": "cl", "xmm1": "xmm2", "xmm9": "xmm10", "ymm1": "ymm2", "ymm3": "ymm4", "ymm9": "ymm11", "ymm11": "ymm9", "mm1": "mm2"}

    def variants(t):
        out = []
        m = list(_re.finditer(r"(0x[0-9a-f]+|\b\d+)", t))
        if m:
            a, b = m[-1].span()
            num = t[a:b]
            last = num[-1]
            out.append(t[:b - 1] + {"0": "8", "8": "0", "1": "3", "9": "1"}.get(last, "0" if last != "0" else "2") + t[b:])
            if num.startswith("0x") and len(t) < 80:
                pad = "0x" + "0" * (70 - len(t)) + num[2:]
                out.append(t[:a] + pad + t[b:])
                out.append(t[:a] + pad[:-1] + ("7" if pad[-1] != "7" else "3") + t[b:])
        m2 = list(_re.finditer(r"\b([a-z]+[0-9]*[a-z]?)\b", t))
        for mm in reversed(m2):
            if mm.group(1) in REGSWAP:
                out.append(t[:mm.start()] + REGSWAP[mm.group(1)] + t[mm.end():])
                break
        return [x for x in out if x != t]
    longs = [t for t in pok if len(t) >= 24 and t not in BRANCHES]
    seeds7 = rnd.sample(longs, min(len(longs), 500 if not full else 8000)) + [t for t in BRANCHES if t in pok]
    fam7 = {t: variants(t) for t in seeds7}
    allv = sorted(set(x for vs in fam7.values() for x in vs))
    valone = corpus.accepted_alone(binary, allv, "211")
    items, m7 = [], []
    for t, vs in fam7.items():
        vs = [x for x in vs if x in valone and valone[x]]
        if not vs:
            continue
        encs7 = dict((x, valone[x]) for x in vs)
        encs7[t] = palone["211"][t]
        for order in ([t] + vs + [t], vs + [t] + vs[::-1], [t, vs[0], t, vs[-1], vs[0]]):
            items.append(("211", "\n".join(order), 0))
            m7.append((order, "".join(encs7[x] for x in order)))
    r7 = common.run_lines(binary, items, tag="c06n")
    stats["near_duplicate_programs"] = 0
    for (order, exp), r in zip(m7, r7):
        v.count()
        case = {"key": "near-duplicates %s" % " | ".join(order)[:300], "fam": "concat_neardup", "program": order}
        if "crash" in r:
            v.violation(case, r["crash"]["sig"], r["crash"]["stderr"][-800:])
        elif r["rc"] != 0 or r["bytes"] != exp:
            v.violation(case, "program!=concatenation-of-its-lines", "rc=%s got %s want %s" % (r["rc"], (r.get("bytes") or "")[:240], exp[:240]))
        else:
            stats["near_duplicate_programs"] += 1
            v.distinct(("nd", tuple(order)))
    # (8) LARGE programs of DIVERSE lines with a periodic layout: every line padded with blanks to exactly W = 16 / 32 / 64 bytes, a
    # vocabulary of ~300 different lines, 12 000 - 70 000 lines (0.4 - 1.1 MB of text; thorough: up to 4 MB). Line k and the line 65536
    # BYTES (or 65536 LINES) earlier then start at positions that agree modulo 2^16: a position, length or line number kept in a narrow
    # type makes one of them pass for the other.
    vocab = sorted(set(t for t in pok if len(t) <= 30))
    big_cases, big_meta = [], []
    for W, nlines in ((32, 12000), (16, 70000), (64, 9000)) if not full else ((32, 12000), (16, 70000), (64, 9000), (32, 140000), (16, 270000), (64, 70000)):
        voc = [t for t in vocab if len(t) < W - 1]
        voc = rnd.sample(voc, min(len(voc), 300))
        if len(voc) < 20:
            continue
        m = masks[W % 3]
        prog = [rnd.choice(voc) for _ in range(nlines)]
        text = "".join(t + " " * (W - 1 - len(t)) + "\n" for t in prog)
        exp = "".join(palone[m][t] for t in prog)
        big_cases.append(["new 0 int", "opt 0 mov %s" % m[0], "opt 0 swap %s" % m[1], "opt 0 nobase %s" % m[2], "asm 0 %s" % common.hx(text), "sumoff 0"])
        big_meta.append((W, nlines, m, exp, len(text)))
    bres = common.run_cases(binary, big_cases, tag="c06L", per_case_timeout=300)
    stats["large_periodic_programs"] = 0
    for (W, nlines, m, exp, tl), cmds, r in zip(big_meta, big_cases, bres):
        v.count()
        case = {"key": "large periodic program: %d lines of %d bytes (%d bytes of text) [%s]" % (nlines, W, tl, m), "fam": "concat_large", "n": nlines}
        if r["crash"]:
            v.violation(case, r["crash"]["sig"], r["crash"]["stderr"][-800:])
            continue
        a, so = r["records"][4].split(), r["records"][5].split()
        if a[1] != "0" or int(so[1]) != len(exp) // 2:
            v.violation(case, "large:rc/offset-differs", "rc=%s off=%s want %d" % (a[1], so[1], len(exp) // 2))
        elif so[2] != fnv(exp):
            v.violation(case, "program!=concatenation-of-its-lines", "fingerprint of %d bytes of code %s, of the concatenation %s" % (len(exp) // 2, so[2], fnv(exp)))
        else:
            stats["large_periodic_programs"] += 1
            v.distinct(("large", W, nlines, m))
    v.cov["rule"] = ("representative set R (one line per structural group of the C01-C05 generators + skipped lines: comments, labels, section/global, blanks), enc(l) = line alone on a fresh "
                     "instance with the same options; all ordered pairs of R; seeded programs of 3-200 lines x all 2^(k-1) splits for k<=7 (random splits beyond) x start offsets {0,1,19,4095} x prefill "
                     "{00,CC,FF,90} x repetition after asm_set_offset; programs assembled over the code of a sibling program (same lines, other constants) or of themselves; one line / a pair of lines repeated 300 and 66000 times in one call; 1500 (40000) programs of 3-14 lines drawn from the whole corpus (several lines of one mnemonic with other operands, zero- and many-operand lines in between); programs of near-duplicate neighbours (lines equal up to the last digit / register, common prefixes of up to 90 characters); large programs (0.4-1.1 MB of text, thorough 4 MB) of ~300 different lines padded to a fixed width of 16 / 32 / 64 bytes; oracle: byte equality with the concatenation and offset == start + total")
    v.cov["exhaustive"] = False
    return v.finish(stats, stats["representative_lines"] >= 100 and stats["pairs"] > 5000, "representative set too small: %r" % stats)
