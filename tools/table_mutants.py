#!/usr/bin/env python3
"""tools/table_mutants.py [--tier quick|thorough] [--rows a:b] [--out file.json]

Data-mutation campaign over INSTR_TABLE (src/instructions.c): for every row and every cell of the row (operand formats,
operand encoding, type, opcode-offset index, /digit, opcode length, every opcode byte / VEX descriptor) one or two
"one cell changed" variants of the library are produced AT RUN TIME (harness/poke.c pokes the cell in a driver built
from /repo's working tree - no rebuild per mutant) and the lines of the C01-C05 corpora that use the row's mnemonic, plus
the C10 universe of operand-kind tuples for that mnemonic, are assembled with the variant.

A variant is
  detected    if some corpus line that the unchanged library accepts now is rejected / crashes / decodes to a different
              canonical instruction (the C01-C05 oracle), or some line of the C10 universe that must be rejected is now
              accepted;
  equivalent? if bytes change but every changed line still decodes to the same canonical instruction;
  silent      if no corpus line changes at all: either the cell is irrelevant for that row (e.g. the /digit of an RM
              row) or the corpora have a blind spot. The list of silent variants is what this tool is for.
Nothing here is a registered check; it measures the reach of the workloads the checks use (DESIGN.md section 9)."""
import json, os, re, sys, random
sys.path.insert(0, os.path.dirname(os.path.dirname(os.path.abspath(__file__))))
from vlib import common, isa, enc, oracle, canon  # noqa: E402


def parse_rows():
    src = open(os.path.join(common.REPO, "src", "instructions.c")).read()
    body = src[src.index("const struct instr_table INSTR_TABLE[]"):]
    rows = []
    for m in re.finditer(r"^\s*\{(\{'\\0'\}|\"[a-z0-9_]+\"),\s*([A-Za-z0-9_]+),\s*\{([^}]*)\},\s*([A-Za-z0-9_]+),\s*([A-Z_a-z0-9]+),\s*([^,]+),\s*([^,]+),\s*(\d+),\s*\{(.*)\}\},?\}?;?\s*$", body, re.M):
        rows.append({"name": m.group(2), "str": m.group(1).strip('"') if m.group(1).startswith('"') else None, "fmt": [x.strip() for x in m.group(3).split(",")], "enc": m.group(4), "type": m.group(5), "opoff": m.group(6).strip(),
                     "single": m.group(7).strip(), "size": int(m.group(8)), "opcode": m.group(9)})
    return rows


def corpora(tier, rnd):
    full = tier == "thorough"
    cases = isa.gen_int_regs()
    cases += isa.gen_bmi_regs(corners_only=not full, rnd=rnd, frac=0.05)
    cases += isa.gen_vec_regs(corners_only=not full, rnd=rnd, frac=0.05)
    cases += isa.gen_adx()
    cases += isa.gen_mem(full, rnd, per_class=None if full else 4000)
    cases += isa.gen_imm(rnd, full)
    cases += isa.gen_branch(rnd, 64 if not full else 3000, full)
    cases += isa.gen_branch_indirect() + isa.gen_far(rnd, full)
    by = {}
    for c in cases:
        by.setdefault(c["mn"], {})[c["text"]] = c
    return by


def main():
    tier = "quick"
    out = None
    rows_sel = None
    a = sys.argv[1:]
    while a:
        k = a.pop(0)
        if k == "--tier":
            tier = a.pop(0)
        elif k == "--out":
            out = a.pop(0)
        elif k == "--rows":
            lo, hi = a.pop(0).split(":")
            rows_sel = (int(lo), int(hi))
    rnd = random.Random(12345)
    rows = parse_rows()
    # operand_format enumerators (src/enums.h) by name: opd_error = -1, then n = 0, m, r, ...
    en = open(os.path.join(common.REPO, "src", "enums.h")).read()
    blk = en[:en.index("} operand_format;")]
    blk = blk[blk.rindex("typedef enum {"):]
    names = [x for x in re.findall(r"^\s*([a-z_]+)\s*,\s*$", blk, re.M)]
    global FMT
    FMT = {nm: i for i, nm in enumerate(names)}
    assert FMT["n"] == 0 and FMT["rr"] == 5, FMT
    binary = common.build("poke")
    recs, fin, err, rc, _ = common._run_driver(binary, ["case 0", "poke info"], "pinfo")
    geo = dict(kv.split("=") for kv in recs[1].split()[2:])
    geo = {k: int(v) for k, v in geo.items()}
    by = corpora(tier, rnd)
    # the C10 universe (lines that must be rejected), per mnemonic
    from vlib.props import c10
    dummy = common.Verdict("C10", "tool")
    ms = c10.mnemonics()
    undef, _, _ = c10.undefined_tuples(ms, dummy)
    bad_by = {}
    for (m, t) in undef:
        for o in c10.instantiations(t, False)[:1]:
            bad_by.setdefault(m, []).append(("%s %s" % (m, ", ".join(o))).strip())
    # aliases: the table's enum name is the mnemonic except for a few
    report = {"tier": tier, "rows": len(rows), "variants": 0, "detected": 0, "equivalent": 0, "silent": 0, "silent_list": [], "equivalent_list": [], "rows_without_corpus": []}
    # the mnemonic a row answers to: its own string, else the string of the closest named row above with the same enumerator
    cur = {}
    for r in rows:
        if r["str"]:
            cur[r["name"]] = r["str"]
        r["mn"] = r["str"] or cur.get(r["name"], r["name"])
    base_cache = {}
    for ri, r in enumerate(rows):
        if rows_sel and not (rows_sel[0] <= ri < rows_sel[1]):
            continue
        mn = r["mn"]
        if r["name"] in ("EOI", "LABEL", "SKIP", "NA"):
            continue
        good = sorted(by.get(mn, {}))
        bad = bad_by.get(mn, [])
        if not good:
            report["rows_without_corpus"].append((ri, mn))
            continue
        masks = ["211"] + (["011", "111"] if mn == "mov" else [])
        items = [(m, t, 0) for t in good for m in masks] + [("211", t, 0) for t in bad]
        if mn not in base_cache:
            base_cache[mn] = common.run_lines(binary, items, tag="tm-base", nproc=16)
        base = base_cache[mn]
        # the cells of this row and their variants
        cells = []
        for k in (0, 1):
            cells.append(("fmt%d" % k, geo["fmt0"] + k, "other-format"))
        cells.append(("enc", geo["enc"], "other-enc"))
        cells.append(("type", geo["type"], "other-type"))
        cells.append(("opoff", geo["opoff"], "opoff"))
        cells.append(("single", geo["single"], "single"))
        cells.append(("size", geo["size"], "size"))
        for k in range(r["size"]):
            cells.append(("opcode%d" % k, geo["opcode"] + k, "opcode"))
        for (cname, idx, kind) in cells:
            # read the current value
            recs, fin, err, rc, _ = common._run_driver(binary, ["case 0", "poke %d %d" % (ri, idx)], "pget")
            old = int(recs[1].split()[1])
            if kind == "opcode":
                # literal opcode bytes: flip a low and a high bit; placeholders (REX / REG / VEX descriptor / ib): a literal byte instead, and one descriptor bit
                vals = [old ^ 0x01, old ^ 0x10] if 0 <= old <= 0xff else ([0x90] + ([old ^ (1 << 3), old ^ (1 << 9)] if old & (1 << 19) else []))
            elif kind == "opoff":
                vals = [0 if old != 0 else 1, -1 if old != -1 else 1]
            elif kind == "single":
                vals = [(old + 1) % 8 if old >= 0 else 0, -1 if old >= 0 else 3]
            elif kind == "size":
                vals = [old - 1, old + 1]
            elif kind == "other-type":
                vals = [t for t in (68, 1, 0x40) if t != old][:2]
            elif kind == "other-enc":
                vals = [500 + (old - 500 + 1) % 10, 500 + (old - 500 - 1) % 10] if old >= 500 else [500, 504]
            else:  # operand format: the neighbouring formats; for an unused slot, two common ones
                vals = [old + 1, old - 1] if old >= 0 else [FMT["rr"], FMT["rm"]]
            for val in vals:
                if val == old:
                    continue
                report["variants"] += 1
                res = common.run_lines(binary, items, tag="tm-var", nproc=8, prelude=["poke %d %d %d" % (ri, idx, val)])
                changed = [(it, b, x) for it, b, x in zip(items, base, res) if (b.get("rc"), b.get("bytes") if b.get("rc") == 0 else "", "crash" in b) != (x.get("rc"), x.get("bytes") if x.get("rc") == 0 else "", "crash" in x)]
                key = "row %d %s %s: %s %d -> %d" % (ri, mn, "/".join(r["fmt"]) + " " + r["enc"], cname, old, val)
                if not changed:
                    report["silent"] += 1
                    report["silent_list"].append(key)
                    continue
                # oracle view: accepted line now rejected/crashing, rejected line now accepted, or decodes differently
                det = False
                todec = []
                for (m, t, _), b, x in changed:
                    if "crash" in x or b.get("rc") != x.get("rc"):
                        det = True
                        break
                    if b.get("rc") == 0:
                        todec.append((b["bytes"], x["bytes"]))
                if not det and todec:
                    oracle.decode_many(sorted(set(h for p in todec for h in p if h)))
                    for b0, b1 in todec:
                        if not b1:
                            det = True
                            break
                        c0, c1 = oracle.canon_bytes(b0), oracle.canon_bytes(b1)
                        if c0[0] != "ok" or c1[0] != "ok" or c0[1] != c1[1] or c0[2] != c1[2]:
                            det = True
                            break
                if det:
                    report["detected"] += 1
                else:
                    report["equivalent"] += 1
                    report["equivalent_list"].append(key + "  e.g. %s %s -> %s" % (changed[0][0][1], changed[0][1].get("bytes"), changed[0][2].get("bytes")))
        print("row %d %-12s variants so far %d detected %d equivalent %d silent %d" % (ri, mn, report["variants"], report["detected"], report["equivalent"], report["silent"]), flush=True)
    if out:
        json.dump(report, open(out, "w"), indent=1)
    print(json.dumps({k: v for k, v in report.items() if not k.endswith("_list")}))


if __name__ == "__main__":
    main()
