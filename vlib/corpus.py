"""Representative sets drawn from the C01-C05 generators (used by C06, C07, C11, C13-C16, C20)."""
from . import isa, common


def representative(rnd, per_group=1, cap=None):
    """one (or a few) case per structural group (family, mnemonic class, width, form)"""
    cases = []
    cases += isa.gen_int_regs()
    cases += isa.gen_vec_regs(corners_only=True, rnd=rnd, frac=0.0)
    cases += isa.gen_bmi_regs(corners_only=True, rnd=rnd, frac=0.0)
    cases += isa.gen_mem(False, rnd, per_class=60)
    cases += isa.gen_imm(rnd, False)
    cases += [c for c in isa.gen_branch(rnd, 8) if c["model"] and "reject" not in c["model"]]
    cases += isa.gen_branch_indirect()
    groups = {}
    for c in cases:
        k = (c["fam"], c["w"], c["form"], c.get("imm_bytes"), c.get("imm_neg"), (c.get("disp") is not None), c.get("kw") if c["fam"] == "branch_rel" else None)
        groups.setdefault(k, []).append(c)
    out = []
    for k in sorted(groups, key=str):
        g = groups[k]
        for c in rnd.sample(g, min(per_group, len(g))):
            out.append(c)
    if cap and len(out) > cap:
        out = rnd.sample(out, cap)
    return out


SKIP_LINES = ["", "; just a comment", "label:", "section .text", "global f", "   ", "\t; indented comment", "SECTION .text", "GLOBAL test", "my_label: ; with comment",
              "\t", " \t ", ";", ";;; mov rax, rbx", "  label_2:", ".L1:", "_start:", "L1: ", "Section .data", "section .text align=16", "global _start, foo", "GLOBAL\tmain",
              "section\t.text", "\tglobal f", "   section .bss", "loop:", "mov:", "rax:", "x1: ; c", "label:\t", "; section global label: [rax] 0x10",
              "; \xe2\x80\x94 UTF-8 dash, Latin-1 \xe9, bytes \x80 \x8a \x8d \xff", "\t;\x01\x7f control characters in a comment"]


def accepted_alone(binary, lines, mask="211"):
    """assemble each line alone on a fresh instance; returns dict line -> hex bytes for accepted ones"""
    res = common.run_lines(binary, [(mask, l, 0) for l in lines], tag="alone")
    out = {}
    v = common.CURRENT[0]
    for l, r in zip(lines, res):
        if "crash" not in r and r["rc"] == 0:
            out[l] = r["bytes"]
        elif "crash" in r and v is not None:
            # a line that crashes or hangs when assembled alone is a violation of whatever property is being checked
            v.violation({"key": "alone[%s]: %r" % (mask, l), "fam": "alone", "text": l, "combo": mask}, r["crash"]["sig"], r["crash"].get("stderr", "")[-800:])
    return out
