"""Decode-oracle engine shared by C01-C05, C11: assemble generated cases with the
library under test (ASan+UBSan build), decode the emitted bytes with two
independent decoders, compare canonical tuples with the generator's expectation,
which is itself validated per case against nasm's encoding of the same line."""
from . import common, oracle, canon

COMBOS = [m + s + n for m in "012" for s in "01" for n in "01"]  # mov, swap, nobase
DEFAULT = "211"


def validate_reference(cases, v):
    """nasm referee: returns list of bools (reference side validated)."""
    nres = oracle.nasm_many([c["nasm"] for c in cases if not c.get("noref")])
    hexes = [None if c.get("noref") else nres[c["nasm"]][0] for c in cases]
    oracle.decode_many([h for h in hexes if h])
    ok = []
    for c, h in zip(cases, hexes):
        if c.get("noref"):
            ok.append(True)
            continue
        if h is None:
            v.inconclusive.append({"fam": c.get("fam"), "text": c["text"], "nasm": c["nasm"], "why": "nasm rejects: %s" % nres[c["nasm"]][1]})
            ok.append(False)
            continue
        st, c1, c2, info = oracle.canon_bytes(h)
        alts = [c["exp"]] + c.get("alt", [])
        if st != "ok" or c1 not in alts or c2 not in alts:
            v.inconclusive.append({"fam": c.get("fam"), "text": c["text"], "nasm": c["nasm"], "why": "reference mismatch", "nasm_bytes": h,
                                   "status": st, "llvm": repr(c1), "bfd": repr(c2), "exp": repr(c["exp"]), "info": info})
            ok.append(False)
            continue
        c["nasm_bytes"] = h
        ok.append(True)
    return ok


def symptom_of(case, res):
    """res: dict from run_lines. Returns (symptom or None, detail)."""
    if "crash" in res:
        return res["crash"]["sig"], res["crash"].get("stderr", "")[-1500:]
    if res["rc"] != 0:
        return "rejected", None
    b = res["bytes"]
    n = len(b) // 2
    start = case.get("start", 0)
    if res["off"] - start != n or n == 0:
        return "offset-advance!=bytes", "off=%d n=%d" % (res["off"], n)
    if res["lo"] != -1 and (res["lo"] < start or res["hi"] >= res["off"]):
        return "wrote-outside-[start,offset)", "lo=%d hi=%d off=%d" % (res["lo"], res["hi"], res["off"])
    if "explen" in case and n != case["explen"]:
        return "length:%d->%d" % (case["explen"], n), b
    st, c1, c2, info = oracle.canon_bytes(b)
    if st != "ok":
        return decode_symptom(b), info
    e = case["exp"]
    alts = [e] + case.get("alt", [])
    if c1 in alts and c2 in alts:
        return None, info
    s1, s2 = canon.diff_sig(e, c1), canon.diff_sig(e, c2)
    return (s1 if s1 == s2 else s1 + " | " + s2), info


def run(v, cases, binary, combos_for=None, sample_n=8):
    """cases: list of case dicts. combos_for(case) -> list of option masks (default: DEFAULT only).
    Records violations in v; returns stats dict."""
    ok = validate_reference(cases, v)
    items, back = [], []
    for i, c in enumerate(cases):
        if not ok[i]:
            continue
        for m in (combos_for(c) if combos_for else [DEFAULT]):
            items.append((m, c["text"], c.get("start", 0)))
            back.append((i, m))
    res = common.run_lines(binary, items, tag=v.prop.lower())
    oracle.decode_many([r["bytes"] for r in res if r and "bytes" in r and r.get("rc") == 0])
    encs = set()
    held = 0
    for (i, m), r in zip(back, res):
        c = cases[i]
        v.count()
        sym, detail = symptom_of(c, r)
        if "bytes" in r:
            encs.add(r["bytes"])
        if sym is None:
            held += 1
            v.distinct((c["text"], r["bytes"]))
            if held % max(1, len(items) // sample_n) == 0:
                v.sample({"text": c["text"], "opts": m, "bytes": r["bytes"], "decoded": detail, "expected": repr(c["exp"])})
            continue
        cc = dict(c)
        cc["combo"] = m
        cc["key"] = "%s [%s]" % (c["text"], m)
        cc["got_bytes"] = r.get("bytes")
        cc["exp"] = repr(c["exp"])
        v.violation(cc, sym, detail)
    acc = [(cases[i], m, r["bytes"]) for (i, m), r in zip(back, res) if "bytes" in r and r.get("rc") == 0 and r["bytes"]]
    mode_ok = mode_crossing(v, binary, acc)
    ctx_ok = context_crossing(v, binary, acc)
    return {"lines_assembled": len(items), "held": held, "distinct_encodings_decoded": len(encs),
            "reference_validated_cases": sum(ok), "cases": len(cases), "mode_crossing_checks_ok": mode_ok, "context_crossing_checks_ok": ctx_ok}


def context_crossing(v, binary, acc):
    """acc as for mode_crossing. Every line above was assembled ALONE, unterminated, at offset 0 of a fresh caller buffer filled with
    0xCC. What was held constant there varies here, for a sample of the accepted lines: (a) a library-managed buffer at a far offset,
    the line terminated by LF; (b) a zero-filled caller buffer, the line second in a CRLF program; (c) a 0xFF-filled buffer in front
    of a guard page, the same text assembled twice in a row on one instance (the second copy is compared); (d) the line indented with
    a tab and followed by blanks and a comment, after a label line. The instruction bytes must be those of the line alone."""
    import random as _random
    rs = _random.Random(common.SEED * 11 + len(acc))
    n = 1200 if v.tier != "thorough" else 20000
    pick = rs.sample(acc, min(len(acc), n))
    ccases, cmeta = [], []
    for (case, m, b) in pick:
        t = case["text"]
        L = len(b) // 2
        opts = ["opt 0 mov %s" % m[0], "opt 0 swap %s" % m[1], "opt 0 nobase %s" % m[2]]
        far = rs.choice([70001, 6019, 131072, 5])
        variants = {
            "a": (["new 0 int"] + opts + ["setoff 0 %d" % far, "asm 0 %s" % common.hx(t + "\n"), "getoff 0", "dump 0 %d %d" % (far, far + L)], far + L),
            "b": (["new 0 ext 256 H 0x00"] + opts + ["asm 0 %s" % common.hx("nop\r\n" + t + "\r\n"), "getoff 0", "dump 0 1 %d" % (1 + L)], 1 + L),
            "c": (["new 0 ext 4096 R 0xff"] + opts + ["asm 0 %s" % common.hx(t), "asm 0 %s" % common.hx(t), "getoff 0", "dump 0 %d %d" % (L, 2 * L)], 2 * L),
            "d": (["new 0 ext 256 H 0xcc"] + opts + ["asm 0 %s" % common.hx("lbl_1:\n\t" + t + "  \t; " + t + "\n"), "getoff 0", "dump 0 0 %d" % L], L),
        }
        for k in rs.sample(sorted(variants), 2):
            cmds, end = variants[k]
            ccases.append(cmds)
            cmeta.append((case, m, b, k, end))
    cres = common.run_cases(binary, ccases, tag=v.prop.lower() + "x")
    ok = 0
    for (case, m, b, k, end), cmds, r in zip(cmeta, ccases, cres):
        v.count()
        cc = {kk: x for kk, x in case.items() if kk not in ("exp", "alt", "nasm")}
        cc.update({"key": "%s [%s] context %s" % (case["text"], m, k), "combo": m, "fam": "context_" + k, "ofam": case.get("fam"), "script": cmds})
        if r["crash"]:
            v.violation(cc, r["crash"]["sig"], r["crash"]["stderr"][-800:])
            continue
        recs = r["records"]
        a = recs[-3].split()
        off = recs[-2].split()[1]
        d = recs[-1].split()[1]
        if a[1] != "0":
            v.violation(cc, "context-%s:rejected" % k, " ".join(a))
        elif int(off) != end or d != b:
            v.violation(cc, "context-%s:bytes-differ-from-the-line-alone" % k, "offset %s (want %d) bytes %s want %s" % (off, end, d, b))
        else:
            ok += 1
    return ok


def mode_crossing(v, binary, acc):
    """acc: list of (case dict, option mask, plain bytes hex) of lines accepted by plain assembly.
    The same encoding in the other assembly modes: a sample of the accepted lines is assembled again (a) with chunk fitting at a
    position where it does not fit the rest of its chunk, so that it is padded and encoded a second time, and (b) through the
    counting entry point. The instruction bytes must be those of plain assembly - nothing about an encoding may depend on the
    mode it is emitted in. Returns the number of checks that held."""
    import random as _random
    rs = _random.Random(common.SEED * 7 + len(acc))
    nmode = 1500 if v.tier != "thorough" else 25000
    pick = rs.sample(acc, min(len(acc), nmode))
    mcases, mmeta = [], []
    for (case, m, b) in pick:
        hx_ = common.hx(case["text"])
        L = len(b) // 2
        c = rs.choice([32, 16, 64]) if L < 16 else 64
        # ("cnt0": the counting entry point with a chunk size below 2 is documented to be a plain assembly reporting zero)
        for mode in ("fit", "cnt", "cnt0"):
            cmds = ["new 0 ext 256 H 0xcc", "opt 0 mov %s" % m[0], "opt 0 swap %s" % m[1], "opt 0 nobase %s" % m[2]]
            if mode == "fit":
                cmds += ["chunk 0 %d" % c, "setoff 0 %d" % (c - 1), "asm 0 %s" % hx_]
            elif mode == "cnt0":
                cmds += ["setoff 0 %d" % (c - 1), "cnt 0 %d %s" % (rs.choice([0, 1, -1]), hx_)]
            else:
                cmds += ["setoff 0 %d" % (c - 1), "cnt 0 %d %s" % (c, hx_)]
            cmds += ["getoff 0", "dump 0 %d %d" % (c - 1, c + L + 2)]
            mcases.append(cmds)
            mmeta.append((case, m, b, mode, c))
    mres = common.run_cases(binary, mcases, tag=v.prop.lower() + "m")
    mode_ok = 0
    for (case, m, b, mode, c), r in zip(mmeta, mres):
        v.count()
        cc = {k: x for k, x in case.items() if k not in ("exp", "alt", "nasm")}
        cc.update({"key": "%s [%s] %s c=%d" % (case["text"], m, mode, c), "combo": m, "fam": "mode_" + mode, "ofam": case.get("fam")})
        if r["crash"]:
            v.violation(cc, r["crash"]["sig"], r["crash"]["stderr"][-800:])
            continue
        recs = r["records"]
        a = recs[-3].split()
        d = recs[-1].split()[1]
        L = len(b) // 2
        want = (("90" + b) if (mode == "fit" and L >= 2) else b)
        if a[1] != "0":
            v.violation(cc, "%s-mode:rejected" % mode, " ".join(a))
        elif not d.startswith(want):
            v.violation(cc, "%s-mode:instruction-bytes-differ-from-plain" % mode, "got %s want %s" % (d[:2 * (L + 1)], want))
        elif mode == "cnt" and a[4] != ("1" if L >= 2 else "0"):
            v.violation(cc, "cnt-mode:count", "count %s for a %d-byte instruction at offset c-1" % (a[4], L))
        elif mode == "cnt0" and a[4] != "0":
            v.violation(cc, "cnt0-mode:count", "count %s with a chunk size below 2" % a[4])
        else:
            mode_ok += 1
    return mode_ok


def retry_rejected(v, binary, triples, tag="retry"):
    """triples: (case dict, option mask, text) of lines that were REJECTED when assembled alone. Each is submitted again: twice in a row
    on one instance with asm_set_offset(0) in between, and once more after a valid line - a rejection must not depend on whether
    the very same text was seen just before (whatever a failed parse leaves behind must not be reused). Returns #checks that held."""
    cases, meta = [], []
    VALID = ["nop", "setnle r9b", "vpaddb ymm10, ymm11, ymm12", "mov rax, 0x1122334455667788", "add qword [rbx+rcx*2], 7", "jmp short 4", "lea r15, [rax+rsp]", "cmovnae r10w, r11w"]
    for (c, m, text) in triples:
        hx_ = common.hx(text)
        cmds = ["new 0 ext 128 H 0xcc", "opt 0 mov %s" % m[0], "opt 0 swap %s" % m[1], "opt 0 nobase %s" % m[2],
                "asm 0 %s" % hx_, "setoff 0 0", "asm 0 %s" % hx_, "setoff 0 0", "asm 0 %s" % common.hx(VALID[len(cases) % len(VALID)]), "asm 0 %s" % hx_, "setoff 0 0", "asm 0 %s" % hx_, "guard 0"]
        cases.append(cmds)
        meta.append((c, m, text))
    res = common.run_cases(binary, cases, tag=v.prop.lower() + tag)
    ok = 0
    for (c, m, text), cmds, r in zip(meta, cases, res):
        v.count()
        cc = {k: x for k, x in c.items() if k not in ("exp", "alt", "nasm")}
        cc.update({"key": "retry %r [%s]" % (text, m), "combo": m, "fam": "retry_rejected", "text": text, "script": cmds})
        if r["crash"]:
            v.violation(cc, r["crash"]["sig"], r["crash"]["stderr"][-800:])
            continue
        recs = r["records"]
        rcs = [recs[i].split()[1] for i in (4, 6, 9, 11)]
        if any(x == "0" for x in rcs):
            v.violation(cc, "accepted-on-resubmission", "return codes of the four submissions of the same rejected line: %s" % rcs)
        else:
            ok += 1
    return ok


def decode_symptom(b):
    """symptom string for an encoding the decoders do not read as exactly one instruction"""
    st, c1, c2, info = oracle.canon_bytes(b)
    n = len(b) // 2
    if st == "len":
        d = oracle._dcache[b]
        kinds = []
        for l in (d[0], d[2]):
            kinds.append("none" if l <= 0 else ("short" if l < n else ("long" if l > n else "ok")))
        return "decode-length:" + "/".join(kinds)
    if st == "parse":
        return "decode-unparsed"
    return None
