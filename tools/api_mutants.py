#!/usr/bin/env python3
"""tools/api_mutants.py [--files assemblyline.c,parser.c,asmline.c] [--max N] [--out file.json]

Source-mutation campaign for the API-level code (instance life cycle, options, offsets, chunk modes, buffer growth, file
entry points, the asmline tool): the mutants of tools/code_mutants.py's operators are applied one at a time to a scratch
copy of /repo and the *registered quick checks themselves* are run against the copy (VERIF_REPO), most likely check first,
stopping at the first one that reports a violation or a harness error. Lists the mutants no check notices."""
import json, os, random, shutil, subprocess, sys, tempfile
sys.path.insert(0, os.path.dirname(os.path.abspath(__file__)))
import code_mutants as cm  # noqa: E402
V = os.path.dirname(os.path.dirname(os.path.abspath(__file__)))
ORDER = {"assemblyline.c": ["C15", "C13", "C14", "C07", "C12", "C08", "C19", "C17", "C06", "C18", "C20"],
         "parser.c": ["C13", "C06", "C07", "C14", "C08", "C15", "C19", "C17"],
         "asmline.c": ["C20"]}


def main():
    a = sys.argv[1:]
    files, mx, outp = ["assemblyline.c", "parser.c", "asmline.c"], None, None
    while a:
        k = a.pop(0)
        if k == "--files":
            files = a.pop(0).split(",")
        elif k == "--max":
            mx = int(a.pop(0))
        elif k == "--out":
            outp = a.pop(0)
    tmp = tempfile.mkdtemp(prefix="al-api-")
    dst = os.path.join(tmp, "repo")
    os.makedirs(dst)
    subprocess.check_call("cp -r /repo/src %s/src && cp -r /repo/tools %s/tools" % (dst, dst), shell=True)
    env = dict(os.environ, VERIF_REPO=dst, VERIF_EVIDENCE_DIR=os.path.join(tmp, "ev"), VERIF_REPLAY_DIR=os.path.join(tmp, "replay"), VERIF_FUZZ_RUNS="300000")
    rnd = random.Random(7)
    report = {"mutants": 0, "noticed": 0, "harness_error": 0, "silent": [], "by_check": {}, "per_file": {}}
    for f in files:
        path = os.path.join(dst, "tools" if f == "asmline.c" else "src", f)
        orig = open(path).read()
        lines, muts = cm.mutants_of(path)
        if f == "parser.c":
            # the API part: from the room check to the end (the line-level part is covered by tools/code_mutants.py)
            start = next(i for i, l in enumerate(lines) if "static int check_len_or_resize" in l)
            muts = [m for m in muts if m[0] >= start]
        if mx and len(muts) > mx:
            muts = rnd.sample(muts, mx)
        st = {"mutants": 0, "noticed": 0, "silent": 0, "not_compiling": 0}
        for (i, func, what, ml) in muts:
            with open(path, "w") as fh:
                fh.write("\n".join(lines[:i] + [ml] + lines[i + 1:]))
            # does it compile?
            r = subprocess.run(["gcc", "-fsyntax-only", "-w", "-I" + os.path.join(dst, "src"), path], capture_output=True)
            if r.returncode:
                st["not_compiling"] += 1
                continue
            st["mutants"] += 1
            desc = "%s:%d %s(): %s   | %s" % (f, i + 1, func, what, ml.strip()[:110])
            hit = None
            # the checks run four at a time; the first (in ORDER) that reports decides
            from concurrent.futures import ThreadPoolExecutor

            def one(chk):
                try:
                    r = subprocess.run([os.path.join(V, "check"), chk, "quick"], capture_output=True, text=True, env=dict(env, VERIF_EVIDENCE_DIR=os.path.join(tmp, "ev-" + chk)), cwd=V, timeout=400)
                    return chk, r.returncode
                except subprocess.TimeoutExpired:
                    return chk, 3  # the mutant makes the workload hang case after case: noticed (every hang is a violation), just slowly
            order = ORDER[f]
            for g in range(0, len(order), 4):
                with ThreadPoolExecutor(max_workers=4) as ex:
                    for chk, rc in ex.map(one, order[g:g + 4]):
                        if rc != 0 and not hit:
                            hit = (chk, "violation" if rc == 1 else ("timeout" if rc == 3 else "harness-error"))
                if hit:
                    break
            if hit:
                st["noticed"] += 1
                report["by_check"][hit[0]] = report["by_check"].get(hit[0], 0) + 1
                print("noticed by %s (%s): %s" % (hit[0], hit[1], desc), flush=True)
                if hit[1] == "harness-error":
                    report["harness_error"] += 1
                    print("HARNESS %s %s" % (hit[0], desc), flush=True)
            else:
                st["silent"] += 1
                report["silent"].append(desc)
                print("SILENT " + desc, flush=True)
            shutil.rmtree(os.path.join(tmp, "replay"), ignore_errors=True)
        open(path, "w").write(orig)
        report["per_file"][f] = st
        report["mutants"] += st["mutants"]
        report["noticed"] += st["noticed"]
        print(f, st, flush=True)
        if outp:
            json.dump(report, open(outp, "w"), indent=1)
    shutil.rmtree(tmp, ignore_errors=True)
    print(json.dumps({k: v for k, v in report.items() if k != "silent"}))


if __name__ == "__main__":
    main()
