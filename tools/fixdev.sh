#!/bin/sh
# The repository's own test scripts run nasm as root with '-l /dev/stdout' (and sub-agents sometimes with '-o /dev/null'); nasm unlinks
# its output files on error, which replaces these device nodes by regular files. Put them back.
[ -c /dev/null ] || { rm -f /dev/null; mknod -m 666 /dev/null c 1 3; }
[ -L /dev/stdout ] || { rm -f /dev/stdout; ln -s /proc/self/fd/1 /dev/stdout; }
[ -L /dev/stderr ] || { rm -f /dev/stderr; ln -s /proc/self/fd/2 /dev/stderr; }
exit 0
