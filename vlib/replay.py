"""./check replay <file> - rebuilds from /repo's working tree and re-executes the recorded case:
a driver script (history cases), a single line/program under its option mask (encoder cases),
or a fuzz artifact; prints the raw records / decoders' reading so the case can be re-judged."""
import json, os, subprocess
from . import common, oracle


def run(path):
    d = json.load(open(path))
    case = d.get("case", {})
    print("property:", d.get("property"), "| symptom:", d.get("symptom"), "| seen x%s in seed %s tier %s" % (d.get("count"), d.get("seed"), d.get("tier")))
    print("case:", case.get("key") or case.get("text"))
    if case.get("artifact") and os.path.exists(case["artifact"]):
        from .props import c09
        fz = c09.fuzz_build("fuzz")
        r = subprocess.run([fz, case["artifact"]], capture_output=True, text=True, errors="replace")
        print(r.stderr[-3000:])
        return 1 if common.san_summary(r.stderr) else 0
    flavour = case.get("flavour") or "asan"
    if flavour not in common.FLAVOURS:
        flavour = "asan"
    binary = common.build(flavour)
    if case.get("script") and isinstance(case["script"], list) and case["script"] and case["script"][0].startswith(("new", "wrap")):
        res = common.run_cases(binary, [case["script"]], tag="replay", nproc=1)[0]
        for c, r in zip(case["script"], res["records"]):
            print("  %-60s -> %s" % (c[:60], r))
        if res["crash"]:
            print("CRASH:", res["crash"]["what"], res["crash"]["sig"])
            print(res["crash"]["stderr"][-2500:])
            return 1
        return 0
    text = case.get("variant") or case.get("text")
    if text is None:
        print("(no executable payload recorded for this case kind; recorded detail follows)")
        print(d.get("detail"))
        return 0
    mask = case.get("combo") or "211"
    r = common.run_lines(binary, [(mask, text, case.get("start", 0))], tag="replay", nproc=1)[0]
    print("options(mov,swap,nobase)=%s text=%r" % (mask, text))
    if "crash" in r:
        print("CRASH:", r["crash"]["sig"])
        print(r["crash"]["stderr"][-2500:])
        return 1
    print("rc=%d offset=%d dirty=[%d,%d] bytes=%s" % (r["rc"], r["off"], r["lo"], r["hi"], r["bytes"]))
    if r["rc"] == 0 and r["bytes"] and len(r["bytes"]) <= 30:
        st, c1, c2, info = oracle.canon_bytes(r["bytes"])
        print("decoders:", st, "|", info)
        print("llvm tuple:", c1)
        print("bfd  tuple:", c2)
        print("expected  :", case.get("exp"))
    print("recorded detail:", d.get("detail"))
    return 0
