"""C14 - chunk counting reports exactly the boundary-crossing instructions."""
import os
from .. import common, chunks


def run(tier):
    v = common.Verdict("C14", tier)
    full = tier == "thorough"
    rnd = common.rng("c14")
    binary = common.build("asan")
    cat = chunks.length_catalogue(binary, rnd, 2 if not full else 3)
    allc = [(l, h) for lst in cat.values() for (l, h) in lst]
    if len(allc) < 10:
        v.violation({"key": "length catalogue", "fam": "precondition"}, "precondition:valid-lines-rejected", "only %d catalogue lines are accepted by plain assembly" % len(allc))
        return v.finish()
    cs = list(range(2, 21)) + [32, 64] if not full else list(range(2, 41)) + [64, 100, 4096]
    cases, meta = [], []
    wd = common.workdir()

    def add(c, start, prog, tag, second=None, use_file=False, prior_fail=None, internal=False):
        lines = [p[0] for p in prog]
        hexes = [p[1] for p in prog]
        lens = [len(h) // 2 for h in hexes]
        total = sum(lens)
        total2 = sum(len(p[1]) // 2 for p in second) if second else 0
        ptot = sum(len(p[1]) // 2 for p in prior_fail[1]) if prior_fail else 0
        # (caller buffers at every alignment of their address: heap blocks, or ending at a page end)
        cmds = ["new 0 int" if internal else "new 0 ext %d %s 0xcc" % (start + total + total2 + ptot + 64 + (len(cases) % 61), "H" if len(cases) % 3 else "R")]
        if prior_fail:
            # an earlier counting call that FAILS after some of its instructions crossed boundaries: its partial count must not
            # reach the next call ("the count is that of the current call only")
            cmds.append("cnt 0 %d %s" % (prior_fail[0], common.hx("\n".join([p[0] for p in prior_fail[1]] + ["bogus rax, 1"]))))
        cmds.append("setoff 0 %d" % start)
        if use_file:
            path = os.path.join(wd, "c14-%d.asm" % len(cases))
            with open(path, "w", newline="") as f:
                sep = ["\n", "\r\n"][len(cases) % 2]
                f.write(sep.join(lines) + (sep if len(cases) % 3 else ""))  # LF or CRLF, with or without a final line end
            cmds.append("filecnt 0 %d %s" % (c, path))
        else:
            cmds.append("%s 0 %d %s" % ("cntold" if len(cases) % 9 == 4 else "cnt", c, common.hx("\n".join(lines))))  # sometimes the deprecated alias
        cmds += ["getoff 0", "dump 0 %d %d" % (start, start + total)]
        if second is not None:
            l2 = [p[0] for p in second]
            cmds += ["cnt 0 %d %s" % (c, common.hx("\n".join(l2))), "getoff 0"]
        cases.append(cmds)
        meta.append((c, start, lines, hexes, lens, tag, second, use_file, 1 if prior_fail else 0))

    clc = ("clc", "f8")
    for c in cs:
        qs = range(c) if c <= 100 else [0, 1, 2] + list(range(c - 16, c))
        for L, lst in cat.items():
            (line, h) = lst[0]
            for q in qs:
                add(c, 0, [clc] * q + [(line, h), ("ret", "c3")], "grid")
    nrand = 1500 if not full else 60000
    for k in range(nrand):
        c = rnd.choice(cs + [0, 1, -1, 2, 1000000, 128, 255, 256, 1024, 32768, 65536]) if k % 4 else rnd.randrange(2, 131)  # also every size 2..130
        prog = [rnd.choice(allc) for _ in range(rnd.randrange(1, 40))]
        tot = sum(len(p[1]) // 2 for p in prog)
        if k % 5 == 0:
            c = rnd.choice([tot, tot + 1, max(2, tot - 1)])
        start = rnd.choice([0, 1, 2, 3, 7, 19] + ([abs(c) - 1, abs(c), abs(c) + 1] if 2 <= abs(c) < 200 else [])) if k % 7 else rnd.choice([65533, 65536, 70001, 131071])
        second = [rnd.choice(allc) for _ in range(rnd.randrange(1, 20))] if k % 3 == 0 else None
        prior = (rnd.choice([2, 3, 5, 8]), [rnd.choice(allc) for _ in range(rnd.randrange(2, 12))]) if k % 4 == 1 else None
        add(c, max(0, start), prog, "random", second, use_file=(k % 7 == 0), prior_fail=prior)
    # many lines / large counts in ONE call: 300, 40000 and 70000 three-byte instructions with c = 2 (each of them crosses at least one
    # boundary), and long programs with c = 5 and 7 (counts beyond 255 / 32767 / 65535)
    three = next((p for p in allc if len(p[1]) == 6), None)
    if three:
        for nl, c in ((300, 2), (40000, 2), (70000, 2), (70000, 5), (33000, 7)) if full else ((300, 2), (70000, 2), (33000, 7)):
            add(c, rnd.choice([0, 1]), [three] * nl, "random", internal=True, use_file=(nl >= 33000))  # the long ones through the FILE variant (> 64 KiB of text)
    # chunk sizes from the far ends of the int range, and powers of two above 2^16 with start offsets around them
    for c in (-2, -2147483648, 2147483647, 131072, 1048576):
        for k in range(4):
            prog = [rnd.choice(allc) for _ in range(rnd.randrange(1, 12))]
            start = 0 if c < 0 or c > 2**21 else max(0, c - rnd.randrange(0, 12))
            add(c, start, prog, "random", internal=(k % 2 == 0))
    # library-managed buffers (which GROW during the call) with chunk sizes around and above their size (6020 bytes at first, then
    # +6000 per growth): the crossing instruction lies at an offset the mapping did not cover when the call began
    big = [6000, 6019, 6020, 6021, 8192, 12020, 12040, 65536, 100000]
    for k in range(120 if not full else 3000):
        c = rnd.choice(big)
        prog = [rnd.choice(allc) for _ in range(rnd.randrange(1, 12))]
        L0 = len(prog[0][1]) // 2
        # start so that one of the first instructions straddles offset c (or 2c), or just does not
        m = rnd.choice([1, 1, 2])
        start = max(0, m * c - rnd.randrange(0, L0 + 3))
        second = [rnd.choice(allc) for _ in range(rnd.randrange(1, 6))] if k % 3 == 0 else None
        add(c, start, prog, "growing", second, internal=(k % 4 != 3))
    # positions FAR into a library-managed buffer (2^20 .. 2^31): arithmetic on the position that is exact for small values only
    # (a reciprocal instead of a division, a narrow intermediate type) shows at large positions; every chunk size class x positions
    # just before / at / after a chunk boundary near each power of two
    for c in (2, 3, 7, 8, 16, 17, 64, 100, 130, 255, 256, 1000, 4096, 4097, 32768, 46508, 65535, 65536, 100000):
        for P in (2**16, 2**18, 2**20, 2**22, 2**24, 2**26, 2**28 + 5, 2**30, 2**31 - 200000) if full else (2**18, 2**20, 2**24, 2**26, 2**30, 2**31 - 200000):
            for j in (rnd.randrange(1, 6), 0):
                prog = [rnd.choice(allc) for _ in range(rnd.randrange(2, 9))]
                add(c, (P // c) * c + c - j, prog, "far", internal=True)
    res = common.run_cases(binary, cases, tag="c14")
    stats = {"grid_cases": 0, "random_cases": 0, "growing_cases": 0, "far_cases": 0, "nonzero_counts": 0, "max_count": 0, "file_cases": 0, "second_calls": 0, "c_below_2": 0}
    for (c, start, lines, hexes, lens, tag, second, use_file, shift), cmds, r in zip(meta, cases, res):
        v.count()
        stats[tag + "_cases"] += 1
        case = {"key": "%s c=%d start=%d n=%d file=%s tail=%s" % (tag, c, start, len(lines), use_file, lines[-2:]), "fam": "count_" + tag, "c": c, "start": start}
        if r["crash"]:
            v.violation(case, r["crash"]["sig"], r["crash"]["stderr"][-800:])
            continue
        recs = r["records"]
        if shift:
            stats["after_failed_counting_call"] = stats.get("after_failed_counting_call", 0) + 1
            recs = recs[:1] + recs[1 + shift:]
        a = recs[2].split()
        off = int(recs[3].split()[1])
        dump = recs[4].split()[1]
        dump = "" if dump == "-" else dump
        plain = "".join(hexes)
        expc = chunks.model_count(c, start, lens) if c >= 2 else 0
        stats["c_below_2"] += c < 2
        stats["file_cases"] += use_file
        bad = None
        if a[1] != "0":
            bad = ("counting-call-rejected", " ".join(a))
        elif dump != plain or off != start + len(plain) // 2:
            bad = ("bytes!=plain", "off=%d got %s want %s" % (off, dump[:120], plain[:120]))
        elif int(a[4]) != expc:
            bad = ("count:%s" % ("low" if int(a[4]) < expc else "high"), "got %s expected %d (c=%d start=%d lens=%s)" % (a[4], expc, c, start, lens[-6:]))
        elif second is not None:
            stats["second_calls"] += 1
            a2 = recs[5].split()
            l2 = [len(p[1]) // 2 for p in second]
            e2 = chunks.model_count(c, off, l2) if c >= 2 else 0
            if a2[1] != "0":
                bad = ("second-counting-call-rejected", " ".join(a2))
            elif int(a2[4]) != e2:
                bad = ("second-call-count:%s" % ("carried-over" if int(a2[4]) == e2 + expc else "wrong"), "got %s expected %d (first call %d)" % (a2[4], e2, expc))
        if bad:
            v.violation(case, bad[0], bad[1])
            continue
        if expc:
            stats["nonzero_counts"] += 1
            stats["max_count"] = max(stats["max_count"], expc)
        v.distinct((c, start, tuple(lines), use_file))
        if v.cov["evaluations"] % 1200 == 1:
            v.sample({"chunk": c, "start": start, "n_lines": len(lines), "count": expc, "tail": lines[-2:]})
    v.cov["rule"] = ("the C13 grid (every chunk size x position x encoded length) with counting instead of fitting, plus seeded programs x chunk sizes incl. 0, 1, -1, len, len+1, 10^6 x start offsets x a second counting "
                     "call on the same instance x the file variant x (one case in four) an earlier counting call that failed after some boundary crossings; positions far into a library-managed buffer (2^18..2^31, just before / at chunk boundaries, 19 chunk sizes 2..100000); library-managed buffers with chunk sizes 6000..100000 and start offsets that put the first instructions across offset c or 2c (the mapping grows during the call); oracle: bytes == plain encoding, count == number of instructions with (pos mod c)+len > c at their final positions, count of the current call only, c<2 -> 0")
    v.cov["exhaustive"] = True
    v.cov.update(stats)
    return v.finish(None, stats["nonzero_counts"] > 100, "too few non-zero counts observed: %r" % stats)
