#!/usr/bin/env python3
"""For every repaired defect (status fixed in known_findings.json) build the reverse patch of its fix: commit and confirm
that the check of the recorded property reports it again on a scratch copy (tools/try_patch.py). Prints a table."""
import json, os, subprocess, sys, tempfile
V = os.path.dirname(os.path.dirname(os.path.abspath(__file__)))
d = json.load(open(os.path.join(V, "known_findings.json")))
rows = []
extra = {"C09": [], "C07": ["C15"], "C17": []}
for f in d["findings"]:
    if f.get("status") != "fixed":
        continue
    c = f["commit"]
    patch = os.path.join(V, "mutants", "revert-%s.diff" % c)
    r = subprocess.run("git -C /repo diff %s %s~1 -- src tools > %s" % (c, c, patch), shell=True)
    props = [f["property"]]
    out = subprocess.run([sys.executable, os.path.join(V, "tools", "try_patch.py"), patch] + props, capture_output=True, text=True, env=dict(os.environ, VERIF_FUZZ_RUNS="800000"))
    line = (out.stdout.strip().splitlines() or ["?"])[-1]
    rows.append((c, f["property"], line[:170]))
    print(c, f["property"], "|", line[:170], flush=True)
