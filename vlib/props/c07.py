"""C07 - no sequence of API calls writes outside the attached buffer; <20 bytes room => EXIT_FAILURE."""
import random
from .. import common, chunks

LINES = {1: "clc", 2: "xor eax, eax", 3: "mov rax, rbx", 7: "nop7", 10: "mov rax, 0x1122334455667788",
         13: "mov qword [eax+ebx*8+0x11223344], 0x55667788",
         # every other length the library emits (the keys are labels: the lengths the room model works with are MEASURED per build)
         4: "add rax, 1", 5: "mov eax, 0x11223344", 6: "add ebx, 0x11223344", 8: "mov qword [rax+0x10], 0x11223344", 9: "mov qword [rax+rbx*8+0x10], 0x11223344",
         11: "mov dword [rax+rbx*8+0x11223344], 0x55667788", 12: "mov qword [rax+rbx*8+0x11223344], 0x55667788", 14: "mov word [r8d+r9d*8+0x11223344], 0x1122",
         15: "imul r9, [r8d+ebx*8+0x11223344], 0x11223344", 16: "add qword [rax+rbx*8+0x11223344], 0x1122334455", 17: "test qword [r8d+r9d*8+0x11223344], 0x1122334455667788"}
SHORT = [1, 2, 3, 7, 10, 13]
ALL_LENS = sorted(LINES)
BOGUS = "bogus rax, 1"
SKIPS = ["; a comment", "", "lbl:", "   ", "section .text", "; mov rax, rbx"]  # length label -1: lines that emit nothing


def line_text(L, i=0):
    return LINES[L] if L > 0 else (BOGUS if L == 0 else SKIPS[i % len(SKIPS)])
RESERVE = 20


def gen_history(rnd, n, maxops=6):
    """a history: list of ops ('opt',which,val) ('chunk',c) ('setoff',k) ('asm',[lens]) ('cnt',c,[lens]); len 0 = bogus line"""
    ops = []
    for _ in range(rnd.randrange(1, maxops + 1)):
        r = rnd.random()
        if r < 0.03:
            ops.append(("debug", rnd.choice([0, 1, 0])))
        elif r < 0.07:
            ops.append(("get",))  # asm_get_code / asm_get_offset / asm_get_buffer: getters write nothing, wherever the offset stands  # asm_set_debug on/off: must not change anything about containment
        elif r < 0.12:
            ops.append(("opt", rnd.choice(["mov", "swap", "nobase", "sib", "all"]), rnd.choice([0, 1, 2, 3])))
        elif r < 0.25:
            ops.append(("chunk", rnd.choice([0, 1, 2, 3, 5, 8, 13, 16, 32, 64, 100, 4, 6, 7, 9, 10, 11, 12, 17, 24, 48, 128, 255, 256, 1000, n + 5, max(2, n - 3), 2**64 - 1])))
        elif r < 0.45:
            ks = [0, n, max(0, n - 1), max(0, n - 19), max(0, n - 20), max(0, n - 21), n // 2, max(0, n - 33)]
            ops.append(("setoff", rnd.choice(ks + [rnd.randrange(0, n + 1)])))
        else:
            kind = rnd.random()
            L = rnd.choice([1, 1, 2, 3, 7, 10, 13] + ALL_LENS)
            if kind < 0.5:
                m = rnd.choice([1, 2, 3, max(1, n // L + 3), max(1, (n - 20) // L), max(1, (n - 20) // L + 1), max(1, rnd.randrange((n - 20) // L - 2, n // L + 4))])
                prog = [L] * min(m, 3000)
            elif kind < 0.75:
                prog = [rnd.choice(SHORT) for _ in range(rnd.randrange(1, 12))]
            else:
                # mixed programs of all lengths, up to as many lines as fill the buffer
                pool = rnd.choice([ALL_LENS, [14, 15, 16, 17], [16, 17, 17, 1], [11, 12, 13, 14, 15]])
                prog = [rnd.choice(pool) for _ in range(rnd.randrange(1, max(2, min(400, n // 8 + 3))))]
            if rnd.random() < 0.15:
                prog.insert(rnd.randrange(len(prog) + 1), 0)
            if rnd.random() < 0.2:
                # lines that emit nothing (comments, blank lines, labels, directives) - first, last or anywhere: no room is needed for them
                for _ in range(rnd.choice([1, 1, 2, 5])):
                    prog.insert(rnd.choice([0, len(prog), rnd.randrange(len(prog) + 1)]), -1)
            if rnd.random() < 0.25:
                ops.append(("cnt", rnd.choice([0, 1, 2, 5, 8, 16, 64]), prog))
            else:
                ops.append(("asm", prog))
    return ops


def templates():
    """fixed family of 40 history templates (independent of VERIF_SEED), instantiated per n"""
    T = []
    fixed = random.Random(424242)
    T.append(lambda n: [("asm", [1] * (n + 5))])
    T.append(lambda n: [("asm", [3] * (n // 3 + 3))])
    T.append(lambda n: [("asm", [10] * (n // 10 + 3))])
    T.append(lambda n: [("asm", [13] * (n // 13 + 3))])
    T.append(lambda n: [("setoff", max(0, n - 20)), ("asm", [13])])
    T.append(lambda n: [("setoff", max(0, n - 19)), ("asm", [1])])
    T.append(lambda n: [("setoff", n), ("asm", [1])])
    T.append(lambda n: [("setoff", max(0, n - 1)), ("asm", [13, 13])])
    T.append(lambda n: [("asm", [0]), ("asm", [1, 1, 1])])
    T.append(lambda n: [("asm", [0]), ("asm", [13] * 8), ("asm", [1])])
    T.append(lambda n: [("asm", [1] * (n + 5)), ("asm", [1]), ("asm", [13])])
    T.append(lambda n: [("asm", [1] * (n + 5)), ("setoff", max(0, n - 20)), ("asm", [13]), ("asm", [1])])
    T.append(lambda n: [("chunk", 8), ("asm", [13] * (n // 8 + 2))])
    T.append(lambda n: [("chunk", 16), ("setoff", max(0, n - 21)), ("asm", [1, 13])])
    T.append(lambda n: [("chunk", 64), ("setoff", 1), ("asm", [1] * 50 + [13] * 3)])
    T.append(lambda n: [("chunk", 32), ("setoff", max(0, n - 33)), ("asm", [1, 13, 13])])
    T.append(lambda n: [("chunk", 100), ("setoff", max(0, n - 30)), ("asm", [7, 13, 13])])
    T.append(lambda n: [("chunk", 5), ("asm", [3] * (n + 2))])
    T.append(lambda n: [("chunk", 2), ("asm", [1] * (n + 2))])
    T.append(lambda n: [("cnt", 8, [13] * (n // 13 + 2))])
    T.append(lambda n: [("cnt", 8, [1] * (n + 3)), ("asm", [1])])
    T.append(lambda n: [("cnt", 0, [10] * (n // 10 + 2)), ("setoff", 0), ("asm", [13])])
    T.append(lambda n: [("cnt", 16, [0]), ("asm", [1])])
    T.append(lambda n: [("chunk", 16), ("cnt", 8, [13, 13]), ("asm", [13, 13, 13])])
    T.append(lambda n: [("setoff", n // 2), ("asm", [10] * (n // 20 + 2))])
    T.append(lambda n: [("opt", "all", 0), ("asm", [10] * (n // 10 + 1)), ("opt", "all", 1), ("asm", [10])])
    T.append(lambda n: [("debug", 1), ("debug", 0), ("asm", [1] * (n + 5)), ("asm", [13])])
    T.append(lambda n: [("debug", 0), ("chunk", 8), ("asm", [13] * (n // 8 + 2))])
    T.append(lambda n: [("asm", [3] * 2), ("debug", 0), ("setoff", max(0, n - 19)), ("asm", [1]), ("cnt", 8, [13, 13])])
    T.append(lambda n: [("chunk", 32), ("asm", [12] * max(1, (n - 20) // 12)), ("get",), ("setoff", max(0, n - 1)), ("get",), ("setoff", n), ("get",)])  # getters at the very end of the buffer, fitting mode
    T.append(lambda n: [("asm", [1]), ("chunk", 16), ("setoff", max(0, n - 5)), ("get",), ("asm", [1]), ("get",)])
    T.append(lambda n: [("setoff", n), ("asm", [-1, -1])])                                  # nothing to emit: no room needed
    T.append(lambda n: [("setoff", max(0, n - 19)), ("asm", [-1, 1, -1])])                  # a comment first does not exempt the instruction behind it
    T.append(lambda n: [("setoff", max(0, n - 21)), ("asm", [-1, 1, -1, 1, -1]), ("cnt", 8, [-1, 13])])
    while len(T) < 40:
        seed = fixed.randrange(1 << 30)
        T.append(lambda n, seed=seed: gen_history(random.Random(seed * 1000 + n), n))
    return T


SEPS = ["\n"]  # line separators used between the lines of a program; run() adds the others the library treats as line ends


def to_cmds(n, place, hist, fill="0xcc"):
    cmds = ["new 0 ext %d %s %s" % (n, place, fill)]
    sep = SEPS[(n + len(hist) + sum(len(op[-1]) for op in hist if op[0] in ("asm", "cnt"))) % len(SEPS)]
    for op in hist:
        if op[0] == "opt":
            cmds.append("opt 0 %s %d" % (op[1], op[2]))
        elif op[0] == "debug":
            cmds.append("debug 0 %d" % op[1])
        elif op[0] == "get":
            cmds.append("getcode 0")
        elif op[0] == "chunk":
            cmds.append("chunk 0 %d" % op[1])
        elif op[0] == "setoff":
            cmds.append("setoff 0 %d" % op[1])
        elif op[0] == "asm":
            cmds.append("asm 0 %s" % common.hx(sep.join(line_text(L, i) for i, L in enumerate(op[1]))))
        elif op[0] == "cnt":
            cmds.append("cnt 0 %d %s" % (op[1], common.hx(sep.join(line_text(L, i) for i, L in enumerate(op[2])))))
    cmds.append("guard 0")
    return cmds


def must_fail(n, off, lens, c_fit, lenmap):
    """does the property require EXIT_FAILURE for this call? (an instruction would start with < 20 bytes of room,
    or a line is malformed, or the offset is invalid)"""
    if off < 0:
        return "negative-offset"
    lens = [L for L in lens if L != -1]  # lines that emit nothing need no room
    if 0 in lens:
        real = lens[:lens.index(0)]
    else:
        real = lens
    real = [lenmap[L] for L in real]
    if c_fit >= 2:
        layout, _ = chunks.model_layout(c_fit, off, real)
        starts = [p for (_, p) in layout]
    else:
        starts, p = [], off
        for L in real:
            starts.append(p)
            p += L
    for p in starts:
        if p + RESERVE > n:
            return "room<20 at %d" % p
    if 0 in lens:
        return "malformed-line"
    return None


def run(tier):
    v = common.Verdict("C07", tier)
    full = tier == "thorough"
    rnd = common.rng("c07")
    asan = common.build("asan")
    plain = common.build("plain")
    # measured lengths of the payload lines on this build
    res = common.run_lines(asan, [("211", LINES[L], 0) for L in sorted(LINES)], tag="c07l")
    lenmap = {}
    for L, r in zip(sorted(LINES), res):
        if "crash" in r or r["rc"] != 0:
            # the library does not even assemble a plain valid line on an ample buffer: nothing about containment can be evaluated
            v.violation({"key": "payload line %r" % LINES[L], "fam": "precondition", "text": LINES[L]}, r["crash"]["sig"] if "crash" in r else "precondition:valid-line-rejected", None)
            return v.finish()
        lenmap[L] = len(r["bytes"]) // 2
    # which byte sequences end a line for this library? (LF and CRLF are documented; if a bare CR, LF CR or a run of them separates
    # two instructions as well, programs are also written with those - the room model is about instructions, however they are separated)
    del SEPS[1:]
    cands = ["\r\n", "\r", "\n\r", "\r\r\n", "\n\n"]
    pr = common.run_lines(asan, [("211", "clc" + c + "xor eax, eax", 0) for c in cands], tag="c07s")
    want2 = None
    for c, r in zip(cands, pr):
        if "crash" not in r and r["rc"] == 0 and len(r["bytes"]) == 2 * (lenmap[1] + lenmap[2]):
            SEPS.append(c)
    T = templates()
    jobs = []  # (binary tag, n, place, hist, origin)
    for n in range(0, 65):
        for ti, t in enumerate(T):
            h = t(n)
            jobs.append(("asan", n, "H", h, "template%d" % ti))
            jobs.append(("plain", n, "R", h, "template%d" % ti))
            jobs.append(("plain", n, "L", h, "template%d" % ti))
    # runs of one instruction length that end around the end of the buffer: every length the library emits x buffer lengths x line
    # counts from "fits with room to spare" to "does not fit", in plain, chunk-fitting and counting mode (a room check that is done
    # for the call as a whole, or with an assumed instruction length, is wrong for some of these)
    ns = [64, 100, 185, 200, 255, 256, 320, 333, 400, 512, 777, 1000, 1520, 2048] if not full else list(range(40, 400, 7)) + list(range(400, 3000, 97))
    for L in ALL_LENS:
        for n in ns:
            base = max(1, (n - 20) // L)
            for m in range(max(1, base - 1), n // L + 3):
                for pre, op in (([], ("asm", [L] * m)), ([("chunk", 32)], ("asm", [L] * m)), ([], ("cnt", 16, [L] * m)), ([("setoff", 13)], ("asm", [L] * m))):
                    jobs.append(("asan", n, "H", pre + [op, ("asm", [1])], "rungrid"))
    nrand = 20000 if not full else 600000
    for k in range(nrand):
        n = rnd.choice([100, 400, 4096, 4097, 6000]) if k % 2 else (rnd.randrange(0, 200) if k % 4 else rnd.randrange(200, 2500))
        if k % 25 == 7:
            # lengths around the library's own default size and growth step, powers of two, and a little above 2^16 / 2^20
            n = rnd.choice([5980, 5999, 6000, 6001, 6019, 6020, 6021, 8192, 12000, 12020, 32768, 65535, 65536, 65536 + 30, 100000, 1048576, 1048576 + 21]) if k % 50 == 7 else rnd.randrange(2500, 6100)
        h = gen_history(rnd, n, maxops=6 if k % 5 else 14)
        fl, place = rnd.choice([("asan", "H"), ("plain", "R"), ("plain", "L")])
        jobs.append((fl, n, place, h, "random"))
    stats = {"cases": len(jobs), "line_separators": [x.encode().hex() for x in SEPS], "calls": 0, "calls_failed_as_required": 0, "calls_succeeded": 0, "template_cases": 65 * 40 * 3, "random_cases": nrand, "rungrid_cases": sum(1 for j in jobs if j[4] == "rungrid"),
             "guard_placements": {"H(asan redzones)": 0, "R(guard page after)": 0, "L(guard page before)": 0}}
    for fl, binary in (("asan", asan), ("plain", plain)):
        sel = [j for j in jobs if j[0] == fl]
        cases = [to_cmds(n, place, h) for (_, n, place, h, _) in sel]
        out = common.run_cases(binary, cases, tag="c07" + fl)
        for (_, n, place, h, origin), cmds, r in zip(sel, cases, out):
            v.count()
            stats["guard_placements"][[k for k in stats["guard_placements"] if k.startswith(place)][0]] += 1
            case = {"key": "%s n=%d place=%s %s" % (origin, n, place, _short(h)), "fam": "hist_" + origin.rstrip("0123456789"), "n": n, "place": place, "flavour": fl, "script": cmds}
            recs = r["records"]
            # walk the records that exist (also for a crashed case: earlier calls are still judged)
            off, c_fit = 0, 0
            bad = None
            for op, rec in zip(h, recs[1:]):
                if op[0] == "chunk":
                    c_fit = op[1] if op[1] >= 2 else 0
                elif op[0] == "setoff":
                    off = op[1]
                elif op[0] == "get":
                    g_ = rec.split()
                    if g_[0] != "C" or g_[1] != "1":
                        bad = ("getter-returns-another-buffer", rec)
                        break
                    if int(g_[3]):
                        bad = ("canary-damaged:%s" % ("before-buffer" if int(g_[4]) < 0 else "after-buffer"), "after the getters: " + rec)
                        break
                elif op[0] in ("asm", "cnt"):
                    a = rec.split()
                    if a[0] != "A":
                        bad = ("malformed-record", rec)
                        break
                    stats["calls"] += 1
                    rc, before, after, pfx, can, first = int(a[1]), int(a[2]), int(a[3]), int(a[5]), int(a[6]), int(a[7])
                    lens = op[1] if op[0] == "asm" else op[2]
                    cf = c_fit if op[0] == "asm" else 0
                    why = must_fail(n, before, lens, cf, lenmap)
                    if pfx:
                        bad = ("wrote-before-call-start", "%d bytes of [0,%d) changed: %s" % (pfx, before, rec))
                    elif can:
                        bad = ("canary-damaged:%s" % ("before-buffer" if first < 0 else "after-buffer"), "first damaged rel=%d count=%d: %s" % (first, can, rec))
                    elif why and rc == 0:
                        bad = ("success-although-must-fail:" + why.split(" ")[0], "%s; %s" % (why, rec))
                    elif not why and rc != 0:
                        # every instruction of the call starts with at least the 20 reserve bytes of room and every line is valid
                        bad = ("failure-although-room>=20", rec)
                    if bad:
                        break
                    if rc:
                        stats["calls_failed_as_required"] += bool(why)
                    else:
                        stats["calls_succeeded"] += 1
                    off = after
            if not bad and r["crash"]:
                sig = r["crash"]["sig"]
                bad = (sig, (r["crash"]["what"] + "\n" + r["crash"]["stderr"][-1000:]))
            if not bad and not r["crash"]:
                g = recs[-1].split()
                if g[0] == "U" and int(g[1]):
                    bad = ("canary-damaged:%s" % ("before-buffer" if int(g[2]) < 0 else "after-buffer"), recs[-1])
            if bad:
                v.violation(case, bad[0], bad[1])
            else:
                v.distinct((n, place, _short(h)))
                if v.cov["evaluations"] % 3000 == 1:
                    v.sample({"n": n, "placement": place, "history": _short(h), "records": recs[1:6]})
    # the reserve is sufficient for every instruction the library can emit: each line of the encoder corpora, with exactly 20 bytes of room,
    # in front of a guard page. (The room model above relies on "no instruction is longer than the reserve".)
    from .. import isa, enc
    pool = isa.gen_mem(False, rnd, per_class=60 if not full else 600) + isa.gen_imm(rnd, False) + rnd.sample(isa.gen_int_regs(), 1500 if not full else 20000)
    pool += isa.gen_vec_regs(corners_only=True, rnd=rnd, frac=0.0) + isa.gen_far(rnd) + [c for c in isa.gen_branch(rnd, 8) if c["d"] % 4 == 0]
    texts = sorted(set(c["text"] for c in pool) | set(isa.long_lines(rnd, full, 1500)))  # incl. the longest things the library emits
    if not full:
        texts = rnd.sample(texts, min(len(texts), 12000))
    cases, meta = [], []
    for t in texts:
        n, k = rnd.choice([(20, 0), (41, 21), (84, 64), (4096, 4076)])
        mask = rnd.choice(enc.COMBOS)
        cmds = ["new 0 ext %d R 0xcc" % n, "opt 0 mov %s" % mask[0], "opt 0 swap %s" % mask[1], "opt 0 nobase %s" % mask[2], "setoff 0 %d" % k,
                "asm 0 %s" % common.hx(t), "guard 0"]
        cases.append(cmds)
        meta.append((t, n, k, mask))
    out = common.run_cases(plain, cases, tag="c07r")
    roomy = common.run_lines(plain, [(mask, t, 0) for (t, n, k, mask) in meta], tag="c07b")  # the same lines with ample room
    stats["reserve_lines"] = len(cases)
    stats["reserve_lines_accepted"] = 0
    stats["reserve_longest"] = 0
    for (t, n, k, mask), cmds, r, big in zip(meta, cases, out, roomy):
        v.count()
        case = {"key": "reserve %r n=%d off=%d [%s]" % (t, n, k, mask), "fam": "reserve", "text": t, "n": n, "place": "R", "script": cmds}
        recs = r["records"]
        bad = None
        if r["crash"]:
            bad = (r["crash"]["sig"], r["crash"]["what"] + "\n" + r["crash"]["stderr"][-1000:])
        else:
            a = recs[5].split()
            g = recs[-1].split()
            if a[0] != "A":
                bad = ("malformed-record", recs[5])
            elif int(a[5]):
                bad = ("wrote-before-call-start", recs[5])
            elif int(a[6]) or (g[0] == "U" and int(g[1])):
                bad = ("canary-damaged:after-buffer", recs[5] + " / " + recs[-1])
            elif int(a[1]) == 0 and int(a[3]) > n:
                bad = ("offset-beyond-buffer", recs[5])
            elif int(a[1]) != 0 and "crash" not in big and big["rc"] == 0:
                bad = ("failure-although-room==20", "accepted with ample room (%s) but: %s" % (big["bytes"], recs[5]))
            elif int(a[1]) == 0:
                stats["reserve_lines_accepted"] += 1
                stats["reserve_longest"] = max(stats["reserve_longest"], int(a[3]) - k)
        if bad:
            v.violation(case, bad[0], bad[1])
        else:
            v.distinct(("reserve", t, n))
    v.cov["rule"] = ("histories create(n) + <=6 ops from {option setters, chunk size, asm_set_offset(0<=k<=n), assemble, counting assemble, the getters asm_get_code / asm_get_offset / asm_get_buffer} with instructions of every length 1..17 (runs and mixtures), malformed lines and "
                     "failing calls followed by further calls without resetting the offset; n = 0..64 exhaustively x a fixed family of 40 templates x 3 guard placements (ASan heap redzones; guard page "
                     "directly after / directly before the buffer with canary slack on the other side), a grid of runs of each instruction length that end around the end of buffers of 64..2048 bytes (plain, fitting, counting, start offset 13), then seeded random histories (up to 14 operations; 28 chunk sizes incl. ones above n and SIZE_MAX) on n in {0..6100, 8192, 12000, 32768, 65535..65566, 100000, 2^20, 2^20+21}. Monitors: guard-page fault, "
                     "canary, snapshot of [0,start) around every call, ASan, and the room model (an instruction starting with < 20 bytes left => the call must fail). Plus: every line of the "
                     "encoder corpora (all memory shapes incl. displacements spelt as 64-bit two's complement, immediates, vector and branch forms; sampled in quick) assembled with exactly 20 bytes of room in front of a guard page")
    v.cov["exhaustive"] = True
    v.cov.update(stats)
    v.assumptions.append("a wild write into another valid mapping of the process that is neither guard, canary, redzone nor snapshot memory is invisible")
    return v.finish(None, stats["calls_failed_as_required"] > 100 and stats["calls_succeeded"] > 100, "too few calls observed: %r" % stats)


def _short(h):
    out = []
    for op in h:
        if op[0] == "get":
            out.append("get()")
            continue
        if op[0] in ("asm", "cnt"):
            lens = op[-1]
            s = ",".join("%dx%d" % (L, lens.count(L)) for L in sorted(set(lens))) if len(lens) > 6 else ",".join(map(str, lens))
            out.append("%s%s[%s]" % (op[0], "(c=%d)" % op[1] if op[0] == "cnt" else "", s))
        else:
            out.append("%s(%s)" % (op[0], ",".join(map(str, op[1:]))))
    return " ".join(out)
