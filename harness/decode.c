/*
 * decode.c - two independent production x86-64 decoders in one helper:
 * LLVM 14 MC disassembler and GNU binutils libopcodes.  Not linked with the
 * library under test.  stdin: one hex string per line.  stdout per line:
 *   <llvm_len>\t<llvm_text>\t<bfd_len>\t<bfd_text>
 * Each decoder sees exactly the given bytes (reads past the end fail) and
 * decodes only the FIRST instruction; *_len is the bytes it consumed
 * (0 / -1 = could not decode).
 */
#define PACKAGE "verif"
#define PACKAGE_VERSION "1"
#include <dis-asm.h>
#include <llvm-c/Disassembler.h>
#include <llvm-c/Target.h>
#include <stdarg.h>
#include <stdint.h>
#include <stdio.h>
#include <stdlib.h>
#include <string.h>

static char bfd_out[512];
static size_t bfd_len;
static int bfd_printf(void *s, const char *fmt, ...) {
  (void)s;
  va_list ap;
  va_start(ap, fmt);
  int n = vsnprintf(bfd_out + bfd_len, sizeof bfd_out - bfd_len, fmt, ap);
  va_end(ap);
  if (n > 0)
    bfd_len += (size_t)n;
  if (bfd_len >= sizeof bfd_out)
    bfd_len = sizeof bfd_out - 1;
  return n;
}
static int bfd_styled(void *s, enum disassembler_style st, const char *fmt,
                      ...) {
  (void)s;
  (void)st;
  va_list ap;
  va_start(ap, fmt);
  int n = vsnprintf(bfd_out + bfd_len, sizeof bfd_out - bfd_len, fmt, ap);
  va_end(ap);
  if (n > 0)
    bfd_len += (size_t)n;
  if (bfd_len >= sizeof bfd_out)
    bfd_len = sizeof bfd_out - 1;
  return n;
}

int main(void) {
  LLVMInitializeX86TargetInfo();
  LLVMInitializeX86TargetMC();
  LLVMInitializeX86Disassembler();
  LLVMDisasmContextRef dc =
      LLVMCreateDisasm("x86_64-unknown-linux-gnu", NULL, 0, NULL, NULL);
  if (!dc) {
    fprintf(stderr, "no llvm disassembler\n");
    return 2;
  }
  /* two calls: selecting the printer variant replaces the printer object */
  LLVMSetDisasmOptions(dc, LLVMDisassembler_Option_AsmPrinterVariant);
  LLVMSetDisasmOptions(dc, LLVMDisassembler_Option_PrintImmHex);

  struct disassemble_info di;
  init_disassemble_info(&di, NULL, bfd_printf, bfd_styled);
  di.arch = bfd_arch_i386;
  di.mach = bfd_mach_x86_64;
  di.disassembler_options = "intel";
  disassemble_init_for_target(&di);
  disassembler_ftype dis = disassembler(bfd_arch_i386, 0, bfd_mach_x86_64, NULL);

  char *line = NULL;
  size_t cap = 0;
  ssize_t len;
  uint8_t buf[64];
  while ((len = getline(&line, &cap, stdin)) > 0) {
    while (len > 0 && (line[len - 1] == '\n' || line[len - 1] == '\r'))
      line[--len] = 0;
    size_t n = 0;
    for (ssize_t i = 0; i + 1 < len && n < sizeof buf; i += 2) {
      unsigned v;
      if (sscanf(line + i, "%2x", &v) != 1)
        break;
      buf[n++] = (uint8_t)v;
    }
    char ltxt[256] = "";
    size_t l1 = n ? LLVMDisasmInstruction(dc, buf, n, 0, ltxt, sizeof ltxt) : 0;
    for (char *p = ltxt; *p; p++)
      if (*p == '\t' || *p == '\n')
        *p = ' ';
    bfd_len = 0;
    bfd_out[0] = 0;
    di.buffer = buf;
    di.buffer_vma = 0;
    di.buffer_length = n;
    int l2 = n ? dis(0, &di) : 0;
    bfd_out[bfd_len] = 0;
    for (char *p = bfd_out; *p; p++)
      if (*p == '\t' || *p == '\n')
        *p = ' ';
    printf("%zu\t%s\t%d\t%s\n", l1, ltxt, l2, bfd_out);
  }
  fflush(stdout);
  return 0;
}
