"""C20 - asmline's outputs and exit status reflect the library result."""
import os, subprocess
from concurrent.futures import ThreadPoolExecutor
from .. import common, corpus

# asmline flag -> documented library option calls (driver 'opt' commands); only non-conflicting sets are combined
MODEFLAGS = {
    "": [], "-n": ["all 1"], "-t": ["all 0"], "-s": ["all 2"], "--nasm": ["all 1"], "--strict": ["all 0"], "--smart": ["all 2"],
    "--nasm-mov-imm": ["mov 1"], "--strict-mov-imm": ["mov 0"], "--smart-mov-imm": ["mov 2"],
    "--nasm-sib": ["sib 1"], "--strict-sib": ["sib 0"],
    "--nasm-sib-index-base-swap": ["swap 1"], "--strict-sib-index-base-swap": ["swap 0"],
    "--nasm-sib-no-base": ["nobase 1"], "--strict-sib-no-base": ["nobase 0"],
}
PAIRS = [("--strict-mov-imm", "--strict-sib"), ("--nasm-mov-imm", "--strict-sib-no-base"), ("--strict-mov-imm", "--strict-sib-index-base-swap"),
         ("--nasm-sib-index-base-swap", "--strict-sib-no-base"), ("--strict-sib-index-base-swap", "--nasm-sib-no-base"), ("--smart-mov-imm", "--strict-sib")]
PROBE = ["mov rax, 0x7fffffff", "mov rcx, 0x000000007fffffff", "lea r15, [rax+rsp]", "lea r14, [2*rax]"]


def build_asmline():
    out = os.path.join(common.workdir(), "asmline-asan")
    if os.path.exists(out):
        return out
    cmd = ["gcc", "-O1", "-g", "-w"] + common.SAN + ["-D" + common.GUARD, "-I" + os.path.join(common.REPO, "src")] + common.lib_sources() + [os.path.join(common.REPO, "tools", "asmline.c"), "-o", out]
    r = subprocess.run(cmd, capture_output=True, text=True)
    if r.returncode:
        raise common.HarnessError("asmline build failed: " + r.stderr[-2000:])
    return out


def fmt_p(insn_hex):
    """-p without -c: one row per instruction, line break after 7 bytes (debug_without_chunksize)"""
    out = ""
    for h in insn_hex:
        bs = [h[i:i + 2] for i in range(0, len(h), 2)]
        for i, b in enumerate(bs):
            if i == 7:
                out += "\n"
            out += b + " "
        out += "\n"
    return out


def fmt_chunks(code_hex, c):
    bs = [code_hex[i:i + 2] for i in range(0, len(code_hex), 2)]
    out = ""
    for i, b in enumerate(bs):
        if i % c == 0 and i != 0:
            out += "|\n"
        out += b + " "
    return out + "\n"


def run(tier):
    v = common.Verdict("C20", tier)
    full = tier == "thorough"
    rnd = common.rng("c20")
    asmline = build_asmline()
    drv = common.build("asan")
    wd = common.workdir()
    rep = corpus.representative(rnd, 1, cap=150)
    lines = sorted(set(c["text"] for c in rep if not c["text"].startswith(("j", "call", "xbegin", "ret"))))
    # per-line bytes under each option state we use (for -p formatting and expected code)
    progs = []
    nprog = 40 if not full else 300
    for k in range(nprog):
        p = [rnd.choice(lines) for _ in range(rnd.randrange(1, 12))]
        if k % 3 == 0:
            p = PROBE + p
        if k % 5 == 0:
            p.insert(rnd.randrange(len(p) + 1), "; a comment line")
        progs.append((p, True))
    for k in range(8 if not full else 60):
        p = [rnd.choice(lines) for _ in range(rnd.randrange(1, 8))]
        p.insert(rnd.randrange(len(p) + 1), rnd.choice(["bogus rax", "mov rax, [rbx", "add rax, 1, 2", "lea rax, [rbx+rcx*3]"]))
        progs.append((p, False))
    execs = []
    for k in range(6 if not full else 40):
        K = rnd.getrandbits(48) | (1 << 47)
        body = ["mov rax, 0x%x" % K, "mov [rdi], rax", "mov rcx, [rdi]", "add rax, rcx", "mov [rsi+0x8], rax", "mov rax, [rsi+0x8]", "nop7", "ret"]
        execs.append((body, (2 * K) & (2**64 - 1)))
    # -r passes six DISTINCT zero-initialised arrays (rdi, rsi, rdx, rcx, r8, r9): the code returns 0x654321 only if that is so
    six = ["mov rax, [rdi]", "add rax, [rsi]", "add rax, [rdx]", "add rax, [rcx]", "add rax, [r8]", "add rax, [r9]",
           "mov qword [rdi], 1", "mov qword [rsi], 2", "mov qword [rdx], 3", "mov qword [rcx], 4", "mov qword [r8], 5", "mov qword [r9], 6"]
    for reg in ("r9", "r8", "rcx", "rdx", "rsi", "rdi"):
        six += ["shl rax, 4", "add rax, [%s]" % reg]
    six.append("ret")
    execs.append((six, 0x654321))
    flagsets = [[f] for f in MODEFLAGS if f] + [list(p) for p in PAIRS] + [[]]
    jobs = []  # dict per invocation
    jid = 0

    def add(prog, valid, flags, outkind, src, extra=None):
        nonlocal jid
        jid += 1
        # with and without a newline after the last line (stdin is read line by line, FILE is mapped as a whole)
        j = {"id": jid, "prog": prog, "valid": valid, "flags": flags, "out": outkind, "src": src, "final_newline": ((jid * 2654435761) >> 9) % 2 == 0 or not prog}
        if extra:
            j.update(extra)
        jobs.append(j)

    outkinds = ["-p", "-P", "-Pstdout", "-o", "-c", "-pc", "-b", "-pb"]
    # '-P /dev/stdout' is only meaningful where /dev/stdout is the usual link to the process' fd 1
    # (in some sandboxes the node is missing and the path would be created as a regular file)
    stdout_ok = os.path.exists("/proc/self/fd/1")
    if not stdout_ok:
        outkinds.remove("-Pstdout")
    for pi, (prog, valid) in enumerate(progs):
        fsets = flagsets if (full or pi < 6) else rnd.sample(flagsets, 4)
        for fs in fsets:
            for ok in (outkinds if (full or pi < 3) else rnd.sample(outkinds, 3)):
                for src in ("FILE", "stdin"):
                    add(prog, valid, fs, ok, src, {"c": rnd.choice([4, 5, 8, 16, 64])})
    # several preset flags on one command line: they are asm_set_all() calls in command-line order (asm_set_all(SMART) leaves the
    # SIB dimensions alone, so '-t -s' is not '-s'); on programs that contain the four option-sensitive probe lines
    import itertools
    presets = ["-n", "-t", "-s"]
    pseqs = [list(x) for x in itertools.product(presets, repeat=2)] + [list(x) for x in itertools.product(presets, repeat=3)][:: (1 if full else 4)]
    pseqs += [["--strict", "--smart"], ["--nasm", "--strict", "--smart"], ["-t", "--smart"], ["--strict", "-s", "-s"]]
    probe_progs = [pv for pv in progs if pv[0][:len(PROBE)] == PROBE][:3 if not full else 12]
    for fs in pseqs:
        for prog, valid in probe_progs:
            for ok in (outkinds if full else rnd.sample(outkinds, 2)):
                add(prog, valid, fs, ok, rnd.choice(["FILE", "stdin"]), {"c": rnd.choice([4, 8, 16])})
    # stdin arriving in pieces (1 byte, 7 bytes, one line-ish, 4096 bytes at a time)
    for pi, (prog, valid) in enumerate(progs[:12] if not full else progs[:80]):
        for step in ((1, 7, 40, 4096) if pi < 3 or full else (rnd.choice([1, 7, 40]),)):
            add(prog, valid, rnd.choice(flagsets), rnd.choice(outkinds), "stdin", {"c": rnd.choice([4, 8, 16]), "pieces": step})
    for body, want in execs:
        for src in ("FILE", "stdin"):
            add(body, True, [], "-r", src, {"want": want})
            add(body, True, ["-n"], "-r=3", src, {"want": want})
    # other spellings and array lengths of -r, values with the high bit set / beyond 32 bits, and -r=0 (the code is called without arguments)
    for K in (0x4000000000000000, 0x7fffffffffffffff, 0x8000000000000005, 0x80000000, 0x7fffffff, 0xffffffffffffffff, 0):
        body, want = ["mov rax, 0x%x" % K, "mov [rdi], rax", "mov rcx, [rdi]", "add rax, rcx", "mov [rsi+0x8], rax", "mov rax, [rsi+0x8]", "nop7", "ret"], (2 * K) & (2**64 - 1)
        for how in ("-r", "-r=2", "-r=100", "--return", "--return=5", "--rand"):  # (--rand: the arrays hold random data; the program writes before it reads)
            add(body, True, [], how, rnd.choice(["FILE", "stdin"]), {"want": want})
        add(["mov rax, 0x%x" % K, "ret"], True, [], "-r=0", rnd.choice(["FILE", "stdin"]), {"want": K})
    # input that contains a NUL byte (a line that is a NUL, a NUL in front of / inside / after an instruction, followed by more lines):
    # the library's string ends there, so FILE (mapped and passed as one string) assembles the text in front of the NUL - and stdin,
    # read line by line with getline(), has to give the same bytes, count and exit status (binary and count outputs only; whole or in pieces)
    for pi, (prog, valid) in enumerate(progs[:6] if not full else progs[:40]):
        for nul in ("\0", "\0nop", "nop\0", "nop\0ret", " \0 ", "nop\r", "\r", "nop\x0c", "\x1a", "nop\x0bnop", "\x01nop"):
            k = rnd.randrange(len(prog) + 1)
            p2 = list(prog[:k]) + [nul] + list(prog[k:]) + ["nop3"]
            for src, extra in (("FILE", {}), ("stdin", {}), ("stdin", {"pieces": rnd.choice([1, 7, 40])})):
                add(p2, valid, rnd.choice(flagsets), rnd.choice(["-P", "-o", "-b", "-c"]), src, dict({"c": rnd.choice([4, 8, 16])}, **extra))
    # programs without any instruction: the empty program (0 bytes of input), a blank line, comments only. The library assembles them to
    # 0 bytes; the outputs are an empty file / no rows / count 0, from stdin and from FILE alike, with exit status 0
    for prog in ([], [""], ["", "", ""], ["; only a comment"], ["; c1", "", "; c2"]):
        for ok in [o for o in outkinds if o not in ("-pc",)]:
            for src in ("FILE", "stdin"):
                add(prog, True, rnd.choice(flagsets), ok, src, {"c": rnd.choice([4, 16])})
        add(prog, True, [], rnd.choice(["-P", "-o", "-b"]), "stdin", {"c": 8, "pieces": 1})
    # LARGE programs (100 .. 6000 lines: more text than one pipe buffer / 64 KiB, more code than the 6000-byte growth step of the library
    # buffer), chunk sizes beyond the code length
    bigs = []
    for nl in ((100, 700, 3000) if not full else (100, 300, 700, 1500, 3000, 6000)):
        for rep in range(1 if not full else 3):
            p = [rnd.choice(lines) for _ in range(nl)]
            if rep == 0 and nl >= 3000:
                p = [l + " ; " + "x" * rnd.randrange(0, 40) for l in p]  # > 64 KiB of text
            bigs.append(p)
    for p in bigs:
        kinds = ["-P", "-o", "-c", "-b", "-pc"] + (["-Pstdout"] if stdout_ok else []) + (["-p", "-pb"] if len(p) <= 800 else [])
        for ok in kinds:
            for src in ("FILE", "stdin"):
                add(p, True, rnd.choice(flagsets), ok, src, {"c": rnd.choice([4, 16, 128, 1000, 100000])})
        for step in (4096, 65536, 1000):
            add(p, True, [], rnd.choice(["-P", "-b", "-c"]), "stdin", {"c": rnd.choice([16, 128]), "pieces": step})
    # chunk sizes larger than the code, and large ones, on the small programs
    for prog, valid in progs[:6]:
        for c in (128, 255, 256, 4096, 65536, 1000000):
            add(prog, valid, [], rnd.choice(["-c", "-pc", "-b", "-pb"]), rnd.choice(["FILE", "stdin"]), {"c": c})
    # options written AFTER the FILE argument (getopt permutes the command line)
    for prog, valid in progs[:6]:
        for ok in ("-p", "-P", "-o", "-b"):
            add(prog, valid, rnd.choice(flagsets), ok, "FILE", {"c": 8, "file_first": True})
    # arguments the usage text excludes (CHUNK_SIZE>1, CHUNK_BOUNDARY>1, -o name without extension): the requested output cannot
    # be produced, the exit status must be non-zero
    for prog, valid in progs[:2]:
        for bad_args in (["-c", "1"], ["-c", "0"], ["-c", "abc"], ["-b", "1"], ["-b", "0"], ["-o", os.path.join(wd, "name.ext")]):
            add(prog, valid, [], "-usage", rnd.choice(["FILE", "stdin"]), {"bad_args": bad_args})
    # unwritable outputs: the exit status must be non-zero
    for prog, valid in progs[:4]:
        for target in ("/dev/full", os.path.join(wd, "no-such-dir", "x.bin")):
            add(prog, valid, [], "-Pbad", "FILE", {"target": target})
            add(prog, valid, [], "-Pbad", "stdin", {"target": target})
    # the printed outputs (-p, -p -c, -b, -r) with a standard output that cannot take them (a full device, a closed descriptor): the
    # requested output did not succeed, the exit status must be non-zero
    for prog, valid in progs[:5]:
        for ok in ("-p", "-pc", "-b", "-pb"):
            for how in ("full", "closed"):
                add(prog, valid, rnd.choice(flagsets), ok, rnd.choice(["FILE", "stdin"]), {"c": 8, "stdout_to": how})
    for body, want in execs[:2]:
        for how in ("full", "closed"):
            add(body, True, [], "-r", "FILE", {"want": want, "stdout_to": how})
    # other SPELLINGS of the same command line: long options, '=' forms, unique abbreviations, bundled short options, '--' before FILE
    SPELL = [("-p", [], ["--print"]), ("-p", ["-n"], ["-np"]), ("-p", ["-n"], ["--nasm", "--print"]), ("-p", ["-t"], ["-tp"]), ("-p", [], ["-p", "--"]),
             ("-P", [], ["--printfile", "{OUT}"]), ("-P", [], ["--printfile={OUT}"]), ("-P", [], ["--printf", "{OUT}"]), ("-P", [], ["-P{OUT}"]),
             ("-o", [], ["--object", "{OBJ}"]), ("-o", [], ["--object={OBJ}"]), ("-o", [], ["--obj", "{OBJ}"]), ("-o", [], ["-o{OBJ}"]),
             ("-pc", [], ["--chunk", "{C}", "-p"]), ("-pc", [], ["--chunk={C}", "--print"]), ("-pc", [], ["-pc{C}"]), ("-pc", [], ["-pc", "{C}"]), ("-pc", [], ["--chu", "{C}", "-p"]), ("-pc", [], ["-c{C}", "-p"]),
             ("-b", [], ["--breaks", "{C}"]), ("-b", [], ["--breaks={C}"]), ("-b", [], ["-b{C}"]), ("-b", [], ["--brea", "{C}"]), ("-pb", [], ["-pb{C}"]), ("-pb", [], ["--print", "--breaks={C}"]),
             ("-p", ["--strict-mov-imm"], ["--strict-m", "-p"]), ("-p", ["--nasm-sib-no-base"], ["--nasm-sib-n", "-p"]), ("-p", ["-s"], ["--smart", "-p"]), ("-p", ["-t"], ["--strict", "--print"])]
    for prog, valid in [pv for pv in progs if pv[0][:len(PROBE)] == PROBE][:3] + progs[:3]:
        for (ok, fl, argvv) in SPELL:
            add(prog, valid, fl, ok, rnd.choice(["FILE", "stdin"]), {"c": rnd.choice([4, 8, 16]), "argv_override": argvv})
    # the NAME of the output: a path longer than one component may be (272 characters, every component legal), blanks, UTF-8 and '%'
    # characters in it, a leading './' - the file that is written must be exactly the one that was named
    for prog, valid in progs[:4]:
        for ok in ("-o", "-P"):
            for nm in ("long", "blank", "percent", "utf8", "long-component"):  # (no '.' anywhere in the path: asmline refuses -o names with a dot as "having an extension")
                add(prog, valid, [], ok, rnd.choice(["FILE", "stdin"]), {"c": 8, "name_variant": nm})
    # TWO outputs requested at once (a printed one and a file): both must be right, and if either cannot be produced the status is non-zero
    for prog, valid in progs[:8]:
        for ok in ("-pP", "-pO", "-bP", "-pbO"):
            for src in ("FILE", "stdin"):
                add(prog, valid, rnd.choice(flagsets), ok, src, {"c": 8})
            for how in ("full", "closed"):
                add(prog, valid, [], ok, rnd.choice(["FILE", "stdin"]), {"c": 8, "stdout_to": how})
        add(prog, valid, [], "-pPbad", "FILE", {"c": 8, "target": "/dev/full"})
    # ---- reference via the driver (library under the corresponding option calls)
    refcases, refkey = [], {}
    for j in jobs:
        opts = [o for f in j["flags"] for o in MODEFLAGS[f]]
        kind = "fit" if j["out"] in ("-c", "-pc") else ("cnt" if j["out"] in ("-b", "-pb", "-bP", "-pbO") else "plain")
        key = (tuple(j["prog"]), tuple(opts), kind, j.get("c") if kind != "plain" else None)
        if key in refkey:
            j["ref"] = key
            continue
        refkey[key] = len(refcases)
        j["ref"] = key
        cmds = ["new 0 int"] + ["opt 0 %s" % o for o in opts]
        text = "\n".join(j["prog"]) + "\n"
        if kind == "fit":
            cmds.append("chunk 0 %d" % j["c"])
        if kind == "cnt":
            cmds.append("cnt 0 %d %s" % (j["c"], common.hx(text)))
        else:
            cmds.append("asm 0 %s" % common.hx(text))
        cmds += ["getoff 0", "dumpoff 0"]
        # per-line lengths for the -p rows: each line alone with the same options
        for l in (j["prog"] if len(j["prog"]) <= 800 else []):
            cmds += ["new 1 ext 64 H 0xcc"] + ["opt 1 %s" % o for o in opts] + ["asm 1 %s" % common.hx(l), "getoff 1", "dump 1 0 20"]
        refcases.append(cmds)
    refres = common.run_cases(drv, refcases, tag="c20r")
    ref = {}
    for key, idx in refkey.items():
        r = refres[idx]
        if r["crash"]:
            ref[key] = None
            continue
        recs = r["records"]
        nopt = len(key[1])
        base = 1 + nopt + (1 if key[2] == "fit" else 0)
        a = recs[base].split()
        off = int(recs[base + 1].split()[1])
        d = recs[base + 2].split()[1]
        code = "" if d == "-" or off <= 0 else d[:2 * off]
        insn = []
        k = base + 3
        for l in (key[0] if len(key[0]) <= 800 else []):
            k += 1 + nopt
            aa = recs[k].split()
            o1 = int(recs[k + 1].split()[1])
            dd = recs[k + 2].split()[1]
            insn.append("" if (aa[1] != "0" or o1 <= 0) else dd[:2 * o1])
            k += 3
        ref[key] = {"rc": int(a[1]), "code": code, "count": a[4], "insn": [h for h in insn if h]}

    # ---- run asmline
    env = dict(os.environ)
    env.update(common.SAN_ENV)

    def go(j):
        d = os.path.join(wd, "j%d" % j["id"])
        os.makedirs(d, exist_ok=True)
        text = "\n".join(j["prog"]) + ("\n" if j["final_newline"] else "")
        src = os.path.join(d, "in.asm")
        with open(src, "w") as f:
            f.write(text)
        args = [asmline] + list(j["flags"])
        outfile = None
        ok = j["out"]
        if ok == "-p":
            args += ["-p"]
        elif ok == "-P":
            outfile = os.path.join(d, "out.raw")
            args += ["-P", outfile]
        elif ok == "-Pstdout":
            # '-P /dev/stdout' written as the node /dev/stdout links to: the link itself is replaced by a regular file whenever something
            # runs nasm as root with '-l /dev/stdout' (the repository's test suite does), also in the middle of this run
            args += ["-P", "/proc/self/fd/1"]
        elif ok == "-Pbad":
            args += ["-P", j["target"]]
        elif ok == "-o":
            outfile = os.path.join(d, "obj.bin")
            args += ["-o", os.path.join(d, "obj")]
        elif ok == "-c":
            outfile = os.path.join(d, "out.raw")
            args += ["-c", str(j["c"]), "-P", outfile]
        elif ok == "-pc":
            args += ["-p", "-c", str(j["c"])]
        elif ok == "-b":
            args += ["-b", str(j["c"])]
        elif ok == "-pb":
            args += ["-p", "-b", str(j["c"])]
        elif ok in ("-pP", "-bP"):
            outfile = os.path.join(d, "out.raw")
            args += (["-p"] if ok == "-pP" else ["-b", str(j["c"])]) + ["-P", outfile]
        elif ok in ("-pO", "-pbO"):
            outfile = os.path.join(d, "obj.bin")
            args += (["-p"] if ok == "-pO" else ["-p", "-b", str(j["c"])]) + ["-o", os.path.join(d, "obj")]
        elif ok == "-pPbad":
            args += ["-p", "-P", j["target"]]
        elif ok.startswith(("-r", "--return", "--rand")):
            args += [ok]
        elif ok == "-usage":
            args += ["-p"] + j["bad_args"]
        if j.get("name_variant"):
            nv = j["name_variant"]
            sub = {"long": os.path.join("a" * 100, "b" * 100, "n" * 70), "blank": os.path.join("dir with blanks", "my out"), "percent": "out%s%n%d-100%",
                   "utf8": os.path.join("d\u00e9j\u00e0", "\u4e2d\u6587-out"), "dotslash": os.path.join(".", "x", ".", "out"), "long-component": "c" * 240}[nv]
            base = os.path.join(d, sub)
            os.makedirs(os.path.dirname(base), exist_ok=True)
            if ok == "-o":
                outfile = base + ".bin"
                args = [asmline] + list(j["flags"]) + ["-o", base]
            else:
                outfile = base + ".raw"
                args = [asmline] + list(j["flags"]) + ["-P", outfile]
        if j.get("argv_override"):
            # another spelling of the same command line (the flags of j["flags"] are part of the override)
            if ok in ("-P", "-c"):
                outfile = os.path.join(d, "out.raw")
            elif ok == "-o":
                outfile = os.path.join(d, "obj.bin")
            args = [asmline] + [a.replace("{OUT}", os.path.join(d, "out.raw")).replace("{OBJ}", os.path.join(d, "obj")).replace("{C}", str(j["c"])) for a in j["argv_override"]]
        if common._hangs[0] >= common.HANG_LIMIT:  # circuit breaker (vlib/common.py): the hangs seen so far are violations already
            return {"rc": "skipped", "stdout": b"", "stderr": b"", "file": None, "argv": args}
        try:
            if j.get("stdout_to"):
                so = open("/dev/full", "wb") if j["stdout_to"] == "full" else None
                try:
                    r = subprocess.run(args + ([src] if j["src"] == "FILE" else []), stdout=so, stderr=subprocess.PIPE, env=env, timeout=30,
                                       input=None if j["src"] == "FILE" else text.encode(), stdin=subprocess.DEVNULL if j["src"] == "FILE" else None,
                                       preexec_fn=None if so else (lambda: os.close(1)))
                finally:
                    if so:
                        so.close()
                r.stdout = b""
            elif j["src"] == "FILE":
                argv = ([args[0], src] + args[1:]) if j.get("file_first") else (args + [src])
                r = subprocess.run(argv, capture_output=True, env=env, timeout=30, stdin=subprocess.DEVNULL)
            elif j.get("pieces"):
                # stdin is a pipe that delivers the program in several pieces (a generator writing line by line, `cat a b |`):
                # every read() is short, none of them is the end of the input
                import time
                pr = subprocess.Popen(args, stdin=subprocess.PIPE, stdout=subprocess.PIPE, stderr=subprocess.PIPE, env=env)
                data = text.encode()
                step = j["pieces"]
                try:
                    for i in range(0, len(data), step):
                        pr.stdin.write(data[i:i + step])
                        pr.stdin.flush()
                        if i < 400 * step:
                            time.sleep(0.003)
                except BrokenPipeError:
                    pass
                try:
                    so, se = pr.communicate(timeout=30)  # closes stdin, then collects the outputs
                except subprocess.TimeoutExpired:
                    pr.kill()
                    pr.communicate()
                    raise
                r = subprocess.CompletedProcess(args, pr.returncode, so, se)
            else:
                r = subprocess.run(args, capture_output=True, env=env, timeout=30, input=text.encode())
        except subprocess.TimeoutExpired:
            common._hangs[0] += 1
            return {"rc": -999, "stdout": b"", "stderr": b"timeout", "file": None, "argv": args}
        # '-P /dev/stdout' is judged only if the node was the usual link to fd 1 before AND after the run (anything that runs nasm as
        # root with '-l /dev/stdout' - the repository's own test suite does - replaces it by a regular file at any moment)
        dev_ok = True
        data = None
        if outfile:
            try:
                data = open(outfile, "rb").read()
            except OSError:
                data = None
        return {"rc": r.returncode, "stdout": r.stdout, "stderr": r.stderr, "file": data, "argv": args[1:], "dev_ok": dev_ok}

    with ThreadPoolExecutor(max_workers=common.NPROC) as ex:
        outs = list(ex.map(go, jobs))
    stats = {"invocations": len(jobs), "by_output": {}, "exit0": 0, "exit_nonzero": 0, "reference_cases": len(refcases), "dev_stdout_usable": stdout_ok}
    for j, o in zip(jobs, outs):
        v.count()
        stats["by_output"][j["out"]] = stats["by_output"].get(j["out"], 0) + 1
        R = ref[j["ref"]]
        case = {"key": "asmline %s %s%s <%s> prog=%s" % (" ".join(j["flags"]), j["out"], " >" + j["stdout_to"] if j.get("stdout_to") else "", j["src"], "; ".join(j["prog"])[:120]), "fam": "asmline", "out": j["out"], "src": j["src"],
                "flags": j["flags"], "argv": o["argv"], "program": j["prog"], "c": j.get("c"), "final_newline": j["final_newline"]}
        if R is None:
            v.violation(case, "reference-crashed", None)
            continue
        if o["rc"] == "skipped":
            v.violation(case, "skipped:after-repeated-hangs", None)
            continue
        err = o["stderr"].decode("latin-1")
        sig = common.san_summary(err)
        if sig or o["rc"] < 0 or o["rc"] > 1 and o["rc"] != 97:
            v.violation(case, sig or ("asmline-exit=%d" % o["rc"]), err[-1200:])
            continue
        if R is None:
            v.violation(case, "reference-crashed", None)
            continue
        lib_ok = R["rc"] == 0
        should_succeed = lib_ok and j["out"] not in ("-Pbad", "-usage", "-pPbad") and not j.get("stdout_to")
        stats["exit0" if o["rc"] == 0 else "exit_nonzero"] += 1
        if (o["rc"] == 0) != should_succeed:
            v.violation(case, "exit-status:%d-but-%s" % (o["rc"], "should-succeed" if should_succeed else "should-fail"), err[-400:])
            continue
        if not should_succeed:
            v.distinct((j["id"],))
            continue
        out = o["stdout"].decode("latin-1")
        code = bytes.fromhex(R["code"])
        bad = None
        k = j["out"]
        if k in ("-P", "-o", "-c"):
            if o["file"] != code:
                bad = ("binary-output-differs", "file %s vs library %s" % (None if o["file"] is None else o["file"].hex()[:80], R["code"][:80]))
        elif k in ("-pP", "-pO", "-bP", "-pbO"):
            wantp = fmt_p(R["insn"]) if k in ("-pP", "-pO") else ((R["count"] + "\n") if k == "-bP" else fmt_p(R["insn"]) + "%s instructions break a chunk boundary of %d bytes\n" % (R["count"], j["c"]))
            if o["file"] != code:
                bad = ("binary-output-differs", "file %s vs library %s" % (None if o["file"] is None else o["file"].hex()[:80], R["code"][:80]))
            elif out != wantp:
                bad = ("printed-output-differs", "got %r want %r" % (out[:200], wantp[:200]))
        elif k == "-Pstdout":
            if not o.get("dev_ok", True):
                v.inconclusive.append({"why": "/dev/stdout was not the link to fd 1 during this invocation", "case": case["key"]})
                continue
            if o["stdout"] != code:
                bad = ("binary-stdout-differs", "%s vs %s" % (o["stdout"].hex()[:80], R["code"][:80]))
        elif k == "-p":
            want = fmt_p(R["insn"])
            if out != want:
                bad = ("hex-print-differs", "got %r want %r" % (out[:200], want[:200]))
        elif k == "-pc":
            want = fmt_chunks(R["code"], j["c"])
            if out != want:
                bad = ("chunk-rows-differ", "got %r want %r" % (out[:300], want[:300]))
        elif k == "-b":
            if out.strip() != R["count"]:
                bad = ("count-differs", "got %r want %s" % (out[:50], R["count"]))
        elif k == "-pb":
            want = fmt_p(R["insn"]) + "%s instructions break a chunk boundary of %d bytes\n" % (R["count"], j["c"])
            if out != want:
                bad = ("count-print-differs", "got %r want %r" % (out[-200:], want[-200:]))
        elif k.startswith(("-r", "--return", "--rand")):
            want = "\nthe value is 0x%x\n" % j["want"]
            if out != want:
                bad = ("returned-value-differs", "got %r want %r" % (out, want))
        if bad:
            v.violation(case, bad[0], bad[1])
        else:
            v.distinct((j["id"],))
            if v.cov["evaluations"] % 400 == 1:
                v.sample({"argv": o["argv"], "source": j["src"], "program": j["prog"][:4], "exit": o["rc"], "stdout": out[:80] if k not in ("-Pstdout",) else o["stdout"].hex()[:80]})
    # ---- the NUMBER given to -c / -b: whatever asmline accepts must be the chunk size the output is made with; what is not an integer
    # > 1 (trailing characters, fractions, out of range) cannot be honoured and must end in a non-zero status. For spellings an
    # integer parser may or may not take (hex, sign, blanks, leading zero) both a rejection and the value they denote are accepted.
    NUMS = [("16", [16], False), ("2", [2], False), ("2147483647", [2147483647], False), ("4294967298", [4294967298], True), ("4294967312", [4294967312], True),
            ("2147483648", [2147483648], True), ("18446744073709551618", [], True), ("99999999999999999999", [], True), ("2.5", [], True), ("16abc", [], True), ("16,5", [], True),
            ("1e3", [], True), ("", [], True), ("-5", [], True), ("-16", [], True), ("0x10", [16], True), (" 16", [16], True), ("16 ", [16], True), ("+16", [16], True), ("016", [16, 14], True), ("１６", [], True)]
    nprogs = [pv[0] for pv in progs if pv[1]][:2 if not full else 8]
    refc, refi = [], {}
    for pi, prog in enumerate(nprogs):
        text = "\n".join(prog) + "\n"
        for arg, readings, _ in NUMS:
            for N in readings:
                if (pi, N) in refi:
                    continue
                refi[(pi, N)] = len(refc)
                cm = ["new 0 int", "chunk 0 %d" % N, "asm 0 %s" % common.hx(text), "dumpoff 0"]
                if N <= 2147483647:
                    cm += ["new 1 int", "cnt 1 %d %s" % (N, common.hx(text))]
                refc.append(cm)
    refr = common.run_cases(drv, refc, tag="c20n")
    njobs = [(pi, arg, readings, rej, kind) for pi in range(len(nprogs)) for (arg, readings, rej) in NUMS for kind in ("-pc", "-b")]

    for pi in range(len(nprogs)):  # (written before the parallel runs start: they share the files)
        with open(os.path.join(wd, "num-%d.asm" % pi), "w") as f:
            f.write("\n".join(nprogs[pi]) + "\n")

    def ngo(job):
        pi, arg, readings, rej, kind = job
        src = os.path.join(wd, "num-%d.asm" % pi)
        argv = [asmline] + (["-p", "-c", arg] if kind == "-pc" else ["-b", arg]) + [src]
        try:
            return subprocess.run(argv, capture_output=True, env=env, timeout=30, stdin=subprocess.DEVNULL)
        except subprocess.TimeoutExpired:
            return None
    with ThreadPoolExecutor(max_workers=common.NPROC) as ex:
        nouts = list(ex.map(ngo, njobs))
    stats["number_argument_cases"] = 0
    for (pi, arg, readings, rej, kind), r in zip(njobs, nouts):
        v.count()
        case = {"key": "asmline %s %r prog#%d" % ("-p -c" if kind == "-pc" else "-b", arg, pi), "fam": "asmline", "out": kind + "num", "arg": arg, "program": nprogs[pi][:4]}
        if r is None:
            v.violation(case, "crash:hang", None)
            continue
        err = r.stderr.decode("latin-1")
        sig = common.san_summary(err)
        if sig or r.returncode < 0 or r.returncode > 1 and r.returncode != 97:
            v.violation(case, sig or ("asmline-exit=%d" % r.returncode), err[-800:])
            continue
        if r.returncode != 0:
            if not rej:
                v.violation(case, "exit-status:%d-but-should-succeed" % r.returncode, err[-300:])
            else:
                stats["number_argument_cases"] += 1
                v.distinct(("num", pi, arg, kind, "rejected"))
            continue
        out = r.stdout.decode("latin-1")
        wants = []
        for N in readings:
            rr = refr[refi[(pi, N)]]
            if rr["crash"]:
                continue
            recs = rr["records"]
            if kind == "-pc":
                d = recs[3].split()[1]
                wants.append(fmt_chunks("" if d == "-" else d, N))
            elif N <= 2147483647:
                wants.append(recs[5].split()[4] + "\n")
        if out in wants:
            stats["number_argument_cases"] += 1
            v.distinct(("num", pi, arg, kind, "accepted"))
        elif not readings:
            v.violation(case, "exit-status:0-but-should-fail", "the argument %r is not an integer > 1 that fits; output %r" % (arg, out[:120]))
        else:
            v.violation(case, "number-argument-honoured-with-another-value", "argument %r: output %r is not that of chunk size %s" % (arg, out[:160], readings))
    # ---- -r[=LEN]: "each pointer points to an array of LEN 64-bit elements". The assembled code runs uninstrumented, so an array that
    # is shorter than LEN is invisible to ASan; valgrind memcheck sees the code's accesses. Programs that write and read the LAST
    # element of all six arrays, for LEN given as -r=LEN and --return=LEN (just above the default 10, small, large), the default and --rand
    import shutil
    vg = shutil.which("valgrind")
    stats["valgrind_runs"] = 0
    if vg:
        plain_asmline = os.path.join(wd, "asmline-plain")
        cmdp = ["gcc", "-O1", "-g", "-w", "-I" + os.path.join(common.REPO, "src")] + common.lib_sources() + [os.path.join(common.REPO, "tools", "asmline.c"), "-o", plain_asmline]
        if subprocess.run(cmdp, capture_output=True).returncode:
            raise common.HarnessError("plain asmline build failed")
        vjobs = []
        for how, LEN in [("-r", 10), ("--return", 10), ("--rand", 10)] + [(f % n, n) for n in ((2, 3, 11, 12, 100) if not full else (1, 2, 3, 4, 9, 11, 12, 13, 16, 100, 1000)) for f in ("-r=%d", "--return=%d")]:
            body, want = [], 0
            for i, reg in enumerate(("rdi", "rsi", "rdx", "rcx", "r8", "r9")):
                body += ["mov qword [%s+%d], %d" % (reg, 8 * (LEN - 1), 0x11 * (i + 1))]
            body += ["xor rax, rax"]
            for i, reg in enumerate(("rdi", "rsi", "rdx", "rcx", "r8", "r9")):
                body += ["shl rax, 8", "add rax, [%s+%d]" % (reg, 8 * (LEN - 1))]
                want = (want << 8) + 0x11 * (i + 1)
            body += ["ret"]
            vjobs.append((how, LEN, body, want))

        def vgo(job):
            how, LEN, body, want = job
            src = os.path.join(wd, "vg-%s-%d.asm" % (how.strip("-").replace("=", ""), LEN))
            with open(src, "w") as f:
                f.write("\n".join(body) + "\n")
            try:
                return subprocess.run([vg, "-q", "--error-exitcode=99", plain_asmline, how, src], capture_output=True, timeout=300, stdin=subprocess.DEVNULL)
            except subprocess.TimeoutExpired:
                return None
        with ThreadPoolExecutor(max_workers=common.NPROC) as ex:
            vouts = list(ex.map(vgo, vjobs))
        for (how, LEN, body, want), r in zip(vjobs, vouts):
            v.count()
            case = {"key": "valgrind asmline %s: last element (%d) of the six arrays" % (how, LEN - 1), "fam": "asmline", "out": how, "program": body[:3]}
            if r is None:
                v.inconclusive.append({"why": "timeout", "case": case["key"]})
                continue
            err = r.stderr.decode("latin-1")
            if r.returncode == 99 or "Invalid write" in err or "Invalid read" in err:
                v.violation(case, "r-arrays-shorter-than-LEN:invalid-" + ("write" if "Invalid write" in err else "read"), err[:1200])
            elif r.returncode != 0 or r.stdout.decode("latin-1") != "\nthe value is 0x%x\n" % want:
                v.violation(case, "returned-value-differs", "exit %d, got %r want 0x%x\n%s" % (r.returncode, r.stdout[:80], want, err[-400:]))
            else:
                stats["valgrind_runs"] += 1
                v.distinct(("vg", how, LEN))
    v.cov["rule"] = ("asmline (tools/asmline.c built with ASan+UBSan from the working tree) vs the library driven through the corresponding documented option calls: seeded programs (valid, with option-sensitive probe lines, "
                     "with one invalid line, executable ones returning values up to 2^64-1, empty / blank / comment-only programs, programs of 100-3000 (thorough: 6000) lines) x every mode flag and non-conflicting flag pairs x outputs {-p, -P file, -P /dev/stdout, -o, -c N (binary), -p -c N, -b N, -p -b N, a printed and a file output together (-p -P, -p -o, -b -P, -p -b -o), -r, -r=0/2/3/100, --return[=5], unwritable -P, printed outputs to a full / closed standard output; 21 spellings of the number given to -c / -b (huge, fractional, trailing characters, hex, signs, blanks); chunk sizes 4..10^6; options before or after FILE, output names of 272 characters / with blanks, UTF-8, '%'; 29 other spellings of the command line (long options, '=' forms, unique abbreviations, bundled short options, '--')} x {FILE, stdin, stdin delivered in pieces of 1 / 7 / 40 / 4096 bytes}. Input containing a NUL byte or a control byte (CR, FF, VT, SUB, SOH) (as a line, in front of / inside / after an instruction, followed by more lines) from FILE, stdin and stdin in pieces, binary and count outputs: all three must equal the library's result on the same string. "
                     "-r / -r=LEN / --return=LEN / --rand additionally under valgrind memcheck with programs that touch the last element of all six arrays. Binary outputs must equal the library bytes, -p the hex rows per instruction (chunk rows with -c), -b the library count, -r the value the code returns; exit status 0 iff assembly and output succeeded")
    v.cov["exhaustive"] = False
    v.cov.update(stats)
    return v.finish(None, stats["exit0"] > 300 and stats["exit_nonzero"] > 20, "too few invocations: %r" % stats)
