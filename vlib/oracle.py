"""Reference side of the decode oracle: the two-decoder helper and the nasm referee."""
import os, re, subprocess
from concurrent.futures import ThreadPoolExecutor
from . import common, canon

DECODE_BIN = os.path.join(common.VERIF, "bin", "decode")


def ensure_decode():
    src = os.path.join(common.VERIF, "harness", "decode.c")
    if os.path.exists(DECODE_BIN) and os.path.getmtime(DECODE_BIN) >= os.path.getmtime(src):
        return DECODE_BIN
    os.makedirs(os.path.dirname(DECODE_BIN), exist_ok=True)
    cmd = ["gcc", "-O1", "-w", src, "-I/usr/lib/llvm-14/include", "-L/usr/lib/llvm-14/lib", "-lLLVM-14",
           "-lopcodes", "-lbfd", "-liberty", "-lz", "-lzstd", "-ldl", "-o", DECODE_BIN + ".tmp%d" % os.getpid()]
    r = subprocess.run(cmd, capture_output=True, text=True)
    if r.returncode:
        raise common.HarnessError("decode helper build failed: " + r.stderr[-2000:])
    os.replace(DECODE_BIN + ".tmp%d" % os.getpid(), DECODE_BIN)
    return DECODE_BIN


_dcache = {}
_VEX2_67 = re.compile(r"^((?:66|f2|f3|2e|3e|26|36|64|65)*67(?:66|f2|f3)*)c5([0-9a-f]{2})")


def llvm_workaround(h):
    """LLVM 14's decoder mis-handles an address-size prefix in front of a 2-byte VEX prefix
    (prints the legacy SSE mnemonic or fails). For LLVM only, such an encoding is rewritten to
    the architecturally identical 3-byte VEX form (C5 [R vvvv L pp] == C4 [R 1 1 00001] [0 vvvv L pp]);
    the consumed length is corrected by one. libopcodes sees the original bytes."""
    m = _VEX2_67.match(h)
    if not m:
        return None
    b = int(m.group(2), 16)
    return m.group(1) + "c4%02x%02x" % ((b & 0x80) | 0x61, b & 0x7f) + h[m.end():]


def decode_many(hexes):
    """hexes: iterable of hex strings. Returns dict hex -> (llvm_len, llvm_text, bfd_len, bfd_text). Cached."""
    todo = sorted(set(h for h in hexes if h and h not in _dcache))
    alt = {}
    for h in todo:
        a = llvm_workaround(h)
        if a:
            alt[h] = a
    if alt:
        decode_many(alt.values())
    if todo:
        binp = ensure_decode()
        nproc = min(common.NPROC, max(1, len(todo) // 2000))
        parts = [todo[i::nproc] for i in range(nproc)]

        def work(p):
            r = subprocess.run([binp], input="\n".join(p) + "\n", capture_output=True, text=True)
            if r.returncode:
                raise common.HarnessError("decode helper failed: " + r.stderr[-500:])
            rows = r.stdout.split("\n")[:-1]
            if len(rows) != len(p):
                raise common.HarnessError("decode helper row count %d != %d" % (len(rows), len(p)))
            out = []
            for h, row in zip(p, rows):
                c = row.split("\t")
                l1, t1 = int(c[0]), c[1].strip()
                if h in alt:
                    a = _dcache[alt[h]]
                    l1, t1 = (a[0] - 1 if a[0] > 0 else a[0]), a[1]
                out.append((h, (l1, t1, int(c[2]), c[3].strip())))
            return out

        with ThreadPoolExecutor(max_workers=nproc) as ex:
            for lst in ex.map(work, parts):
                for h, v in lst:
                    _dcache[h] = v
    return _dcache


_ccache = {}


def canon_bytes(h):
    """hex -> (status, tuple_llvm, tuple_bfd, info). status: 'ok' both decoders consumed exactly
    all bytes and parsed; else reason string."""
    if h in _ccache:
        return _ccache[h]
    d = _dcache.get(h)
    if d is None:
        decode_many([h])
        d = _dcache[h]
    n = len(h) // 2
    l1, t1, l2, t2 = d
    res = None
    if l1 != n or l2 != n:
        res = ("len", None, None, "llvm=%d:%s bfd=%d:%s n=%d" % (l1, t1, l2, t2, n))
    else:
        try:
            c1 = canon.canon_text(t1, l1, "llvm")
        except (canon.CanonError, ValueError) as e:
            c1 = None
            e1 = str(e)
        try:
            c2 = canon.canon_text(t2, l2, "bfd")
        except (canon.CanonError, ValueError) as e:
            c2 = None
            e1 = str(e)
        for cx in (c1, c2):
            pass
        if c1 is not None and c1[0] in ("jmpf", "callf"):
            c1 = c1 + (("i", canon.far_operand_size(h)),)
        if c2 is not None and c2[0] in ("jmpf", "callf"):
            c2 = c2 + (("i", canon.far_operand_size(h)),)
        if c1 is None or c2 is None:
            res = ("parse", c1, c2, "llvm=%s bfd=%s (%s)" % (t1, t2, e1))
        else:
            res = ("ok", c1, c2, "llvm=%s | bfd=%s" % (t1, t2))
    _ccache[h] = res
    return res


# ------------------------------------------------------------------ nasm
_LST = re.compile(r"^\s*(\d+)\s+([0-9A-F]{8})\s+(\S+)")


def _nasm_once(lines, tag):
    wd = common.workdir()
    base = os.path.join(wd, "n-%s" % tag)
    live = list(lines)
    errors = {}
    for _round in range(12):
        with open(base + ".asm", "w") as f:
            f.write("bits 64\n")
            for i, l in enumerate(live):
                f.write((l if i not in errors else ";") + "\n")
        r = subprocess.run(["nasm", "-w-all", "-f", "bin", "-o", base + ".bin", "-l", base + ".lst", base + ".asm"], capture_output=True, text=True)
        new = 0
        for ln in r.stderr.splitlines():
            m = re.match(r"^.*\.asm:(\d+): (error|fatal|panic): (.*)$", ln)
            if m:
                i = int(m.group(1)) - 2
                if 0 <= i < len(live) and i not in errors:
                    errors[i] = m.group(3)
                    new += 1
        if r.returncode == 0:
            break
        if new == 0:
            raise common.HarnessError("nasm failed without attributable errors: " + r.stderr[:500])
    else:
        raise common.HarnessError("nasm did not converge")
    with open(base + ".bin", "rb") as f:
        blob = f.read()
    offs = {}
    with open(base + ".lst", errors="replace") as f:
        for ln in f:
            m = _LST.match(ln)
            if m:
                no = int(m.group(1)) - 2
                if no not in offs:
                    offs[no] = int(m.group(2), 16)
    order = sorted(offs.items())
    res = [None] * len(live)
    for k, (no, off) in enumerate(order):
        end = order[k + 1][1] if k + 1 < len(order) else len(blob)
        if 0 <= no < len(live):
            res[no] = blob[off:end].hex()
    out = []
    for i in range(len(live)):
        if i in errors:
            out.append((None, errors[i]))
        elif res[i] is None:
            out.append((None, "no code"))
        else:
            out.append((res[i], None))
    for ext in (".asm", ".bin", ".lst"):
        try:
            os.unlink(base + ext)
        except OSError:
            pass
    return out


_ncache = {}


def nasm_many(lines):
    """lines: list of nasm-syntax single-line statements. Returns dict line -> (hex|None, err|None)."""
    todo = sorted(set(l for l in lines if l not in _ncache))
    if todo:
        nproc = min(common.NPROC, max(1, len(todo) // 5000))
        parts = [todo[i::nproc] for i in range(nproc)]
        with ThreadPoolExecutor(max_workers=nproc) as ex:
            for p, r in zip(parts, ex.map(lambda a: _nasm_once(a[1], "%d-%d" % (os.getpid(), a[0])), list(enumerate(parts)))):
                for l, v in zip(p, r):
                    _ncache[l] = v
    return _ncache
