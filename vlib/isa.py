"""Committed supported-form spec (DESIGN 2.5) and case builders.

The obligation "every supported form" is data here, written from the mnemonic list
documented in src/instructions.c plus the x86-64 ISA - it is NOT read off the table
of the tree under test, so deleting or corrupting a table row cannot shrink it.
The nasm referee keeps it honest at run time (a form nasm rejects is inconclusive).

A case is a dict:
  text   AssemblyLine syntax       nasm  nasm syntax (default: text)
  exp    expected canonical tuple  mn, form, w, regs, fam ... structural fields used
                                   by known-finding predicates
"""
from .canon import R64, R32, R16, R8, R8H, REGW, canon_expected, regnum

ALU = "adc add and cmp or sbb sub xor".split()
CCS = "a ae b be c e g ge l le na nae nb nbe nc ne ng nge nl nle no np ns nz o p pe po s z".split()
CMOV = ["cmov" + c for c in CCS]
SETCC = ["set" + c for c in CCS]
JCC = "ja jae jb jbe je jg jge jl jle jne jno jnp jns jo jp js".split()  # spellings the table can reach
UNARY = "dec inc neg not".split()
SHIFT_CL = "sal sar shl shr".split()
SHIFT_IMM = "rcr ror sal sar shl shr".split()
NOARG = "clc cpuid lfence mfence sfence rdpmc rdtsc rdtscp ret xend".split()
BMI_RMV = "bextr bzhi sarx shlx shrx".split()
SSE_VV_ONLY = "cvtdq2pd cvtpd2dq divpd mulpd punpcklqdq".split()
SSE_MMX = "paddb paddd paddq paddw pand pandn pmulhrsw pmulhuw pmulhw pmullw pmuludq por psubb psubd psubq psubw pxor".split()
SSE_ONLY_RM = "pmulld pmuldq".split()  # vm, vv
AVX_256_ONLY = "vaddpd vdivpd vmulpd vsubpd vpermd".split()
AVX_BOTH = "vpaddb vpaddd vpaddq vpaddw vpand vpandn vpmuldq vpmulhrsw vpmulhuw vpmulhw vpmulld vpmullw vpmuludq vpor vpsubb vpsubd vpsubq vpsubw vpxor".split()
AVX_IMM = "vperm2i128 vperm2f128".split()
AVX_MOV = "vmovupd vmovdqu".split()
MM = ["mm%d" % i for i in range(8)]
XMM = ["xmm%d" % i for i in range(16)]
YMM = ["ymm%d" % i for i in range(16)]

BYW = {8: R8, 16: R16, 32: R32, 64: R64}
NEEDS_REX8 = set(R8[4:])  # spl.. r15b need a REX prefix


def regs8():
    return R8 + R8H


def ok8(*rs):
    """x86-64 cannot combine ah/ch/dh/bh with a register that needs REX."""
    hi = any(r in R8H for r in rs)
    rex = any((r in NEEDS_REX8) or (regnum(r) >= 8 and r not in R8H) for r in rs)
    return not (hi and rex)


def R(n):
    return ("r", n)


def I(v):
    return ("i", v)


def mk(fam, mn, form, text, ops, w=None, nasm=None, **kw):
    c = {"fam": fam, "mn": mn, "form": form, "text": text, "nasm": nasm or text, "w": w,
         "exp": canon_expected("nop" if mn.startswith("nop") else mn, ops)}
    c["regs"] = [o[1] for o in ops if o[0] == "r"]
    c["ext"] = [regnum(r) >= 8 and r not in R8H for r in c["regs"]]
    c.update(kw)
    return c


# ----------------------------------------------------------------- C01
def gen_int_regs(full=True, sample=None):
    """All register-only general-purpose forms."""
    out = []
    for mn in ALU + ["mov", "test", "xchg"]:
        for w in (8, 16, 32, 64):
            rs = regs8() if w == 8 else BYW[w]
            for a in rs:
                for b in rs:
                    if w == 8 and not ok8(a, b):
                        continue
                    c = mk("alu_rr", mn, "rr", "%s %s, %s" % (mn, a, b), [R(a), R(b)], w)
                    if mn == "xchg" and a == b and w in (16, 64):
                        # architecturally a no-op: the one-byte-opcode NOP encoding is the same instruction
                        c["exp"] = ("nop",)
                        c["alt"] = [canon_expected(mn, [R(a), R(b)])]
                    out.append(c)
    for mn in CMOV + ["imul"]:
        for w in (16, 32, 64):
            for a in BYW[w]:
                for b in BYW[w]:
                    out.append(mk("cmov_rr" if mn != "imul" else "imul_rr", mn, "rr", "%s %s, %s" % (mn, a, b), [R(a), R(b)], w))
    for mn in ("adcx", "adox"):
        for w in (32, 64):
            for a in BYW[w]:
                for b in BYW[w]:
                    out.append(mk("adx_rr", mn, "rr", "%s %s, %s" % (mn, a, b), [R(a), R(b)], w))
    for mn in UNARY + ["imul"]:
        for w in (8, 16, 32, 64):
            for a in (regs8() if w == 8 else BYW[w]):
                out.append(mk("unary_r", mn, "r", "%s %s" % (mn, a), [R(a)], w))
    for dw in (16, 32, 64):
        for a in BYW[dw]:
            for b in regs8():
                if b in R8H and (regnum(a) >= 8 or dw == 64):
                    continue  # REX (REX.W / REX.R) excludes ah..bh
                if True:
                    out.append(mk("movzx", "movzx", "rr", "movzx %s, %s" % (a, b), [R(a), R(b)], dw, srcw=8))
    for dw in (32, 64):
        for a in BYW[dw]:
            for b in R16:
                out.append(mk("movzx", "movzx", "rr", "movzx %s, %s" % (a, b), [R(a), R(b)], dw, srcw=16))
    for mn in SETCC:
        for a in regs8():
            out.append(mk("setcc_r", mn, "r", "%s %s" % (mn, a), [R(a)], 8))
    for mn in SHIFT_CL:
        for w in (8, 16, 32, 64):
            for a in (regs8() if w == 8 else BYW[w]):
                out.append(mk("shift_cl", mn, "rr", "%s %s, cl" % (mn, a), [R(a), R("cl")], w))
    for w in (16, 32, 64):
        for a in BYW[w]:
            for b in BYW[w]:
                out.append(mk("shld_cl", "shld", "rrr", "shld %s, %s, cl" % (a, b), [R(a), R(b), R("cl")], w))
    for mn in ("push", "pop"):
        for w in (16, 64):
            for a in BYW[w]:
                out.append(mk("pushpop_r", mn, "r", "%s %s" % (mn, a), [R(a)], w))
    for mn in NOARG:
        out.append(mk("noarg", mn, "n", mn, [], None))
    nops = {1: "0x90", 2: "0x66,0x90", 3: "0x0f,0x1f,0x00", 4: "0x0f,0x1f,0x40,0x00", 5: "0x0f,0x1f,0x44,0x00,0x00",
            6: "0x66,0x0f,0x1f,0x44,0x00,0x00", 7: "0x0f,0x1f,0x80,0,0,0,0", 8: "0x0f,0x1f,0x84,0,0,0,0,0",
            9: "0x66,0x0f,0x1f,0x84,0,0,0,0,0", 10: "0x66,0x66,0x0f,0x1f,0x84,0,0,0,0,0",
            11: "0x66,0x66,0x66,0x0f,0x1f,0x84,0,0,0,0,0"}
    for n, db in nops.items():
        name = "nop" if n == 1 else "nop%d" % n
        out.append(mk("nop", name, "n", name, [], None, nasm="db " + db, explen=n))
    return out


def gen_int_regs_kw(rnd, n_pairs=4000):
    """Register forms with a (redundant) size keyword in front of a register operand - `inc byte sil`, `mov qword rax, rbx`,
    `movzx eax, byte ah`: the library accepts this spelling (nasm does too); the keyword agrees with the register's width."""
    out = []
    for mn in UNARY:
        for w in (8, 16, 32, 64):
            for a in (regs8() if w == 8 else BYW[w]):
                out.append(mk("unary_r_kw", mn, "r", "%s %s %s" % (mn, KW[w], a), [R(a)], w))
    for mn in SETCC[::3]:
        for a in regs8():
            out.append(mk("setcc_r_kw", mn, "r", "%s byte %s" % (mn, a), [R(a)], 8))
    for mn in SHIFT_CL:
        for w in (8, 16, 32, 64):
            for a in (regs8() if w == 8 else BYW[w]):
                out.append(mk("shift_cl_kw", mn, "rr", "%s %s %s, cl" % (mn, KW[w], a), [R(a), R("cl")], w))
    pairs = []
    for mn in ALU + ["mov", "test", "xchg"]:
        for w in (8, 16, 32, 64):
            rs = regs8() if w == 8 else BYW[w]
            for a in rs:
                for b in rs:
                    if w == 8 and not ok8(a, b):
                        continue
                    if mn == "xchg" and a == b:
                        continue
                    pairs.append((mn, w, a, b))
    # all byte pairs that involve spl/bpl/sil/dil or ah/ch/dh/bh (where the REX rules bite), a sample of the rest
    special = [p for p in pairs if p[1] == 8 and (p[2] in R8[4:8] or p[3] in R8[4:8] or p[2] in R8H or p[3] in R8H)]
    rest = [p for p in pairs if p not in set(special)]
    for (mn, w, a, b) in special + rnd.sample(rest, min(len(rest), n_pairs)):
        out.append(mk("alu_rr_kw", mn, "rr", "%s %s %s, %s" % (mn, KW[w], a, b), [R(a), R(b)], w))
    for dw in (16, 32, 64):
        for a in BYW[dw][::3]:
            for b in regs8():
                if b in R8H and (regnum(a) >= 8 or dw == 64):
                    continue
                out.append(mk("movzx_kw", "movzx", "rr", "movzx %s, byte %s" % (a, b), [R(a), R(b)], dw, srcw=8))
    return out


def gen_bmi_regs(corners_only=False, rnd=None, frac=1.0):
    """BMI2 / ADX three-register VEX forms over all r32^3 and r64^3."""
    out = []
    for mn in BMI_RMV + ["mulx"]:
        for w in (32, 64):
            rs = BYW[w]
            for a in rs:
                for b in rs:
                    for c in rs:
                        corner = all(regnum(x) in (0, 7, 8, 15) for x in (a, b, c))
                        if corners_only and not corner:
                            if rnd is None or rnd.random() >= frac:
                                continue
                        out.append(mk("bmi_rrr", mn, "rrr", "%s %s, %s, %s" % (mn, a, b, c), [R(a), R(b), R(c)], w))
    for w in (32, 64):
        rs = BYW[w]
        for a in rs:
            for b in rs:
                for v in (0, 1, 31, 63):
                    out.append(mk("rorx_rri", "rorx", "rri", "rorx %s, %s, %d" % (a, b, v), [R(a), R(b), I(v)], w, imm=v))
    return out


# ----------------------------------------------------------------- C04
def gen_vec_regs(corners_only=False, rnd=None, frac=1.0):
    out = []

    def pick3(rs):
        for a in rs:
            for b in rs:
                for c in rs:
                    corner = all(regnum(x) in (0, 7, 8, 15) for x in (a, b, c))
                    if corners_only and not corner:
                        if rnd is None or rnd.random() >= frac:
                            continue
                    yield a, b, c

    for mn in SSE_VV_ONLY + SSE_MMX + SSE_ONLY_RM:
        for a in XMM:
            for b in XMM:
                out.append(mk("sse_vv", mn, "vv", "%s %s, %s" % (mn, a, b), [R(a), R(b)], 128))
    for mn in SSE_MMX:
        for a in MM:
            for b in MM:
                out.append(mk("mmx_rr", mn, "rr", "%s %s, %s" % (mn, a, b), [R(a), R(b)], 64))
    for a in XMM:
        for b in R32:
            out.append(mk("movd_vr", "movd", "vr", "movd %s, %s" % (a, b), [R(a), R(b)], 32))
            out.append(mk("movd_rv", "movd", "rv", "movd %s, %s" % (b, a), [R(b), R(a)], 32))
        for b in R64:
            out.append(mk("movq_vr", "movq", "vr", "movq %s, %s" % (a, b), [R(a), R(b)], 64))
            out.append(mk("movq_rv", "movq", "rv", "movq %s, %s" % (b, a), [R(b), R(a)], 64))
        for b in XMM:
            out.append(mk("movq_vv", "movq", "vv", "movq %s, %s" % (a, b), [R(a), R(b)], 128))
        for v in (0, 1, 0x7f, 0xff):
            out.append(mk("psrldq", "psrldq", "vi", "psrldq %s, %d" % (a, v), [R(a), I(v)], 128, imm=v))
    for mn in AVX_256_ONLY + AVX_BOTH:
        for a, b, c in pick3(YMM):
            out.append(mk("avx_yyy", mn, "yyy", "%s %s, %s, %s" % (mn, a, b, c), [R(a), R(b), R(c)], 256))
    for mn in AVX_BOTH:
        for a, b, c in pick3(XMM):
            out.append(mk("avx_vvv", mn, "vvv", "%s %s, %s, %s" % (mn, a, b, c), [R(a), R(b), R(c)], 128))
    for mn in AVX_IMM:
        for a, b, c in pick3(YMM):
            for v in (0, 1, 0x31, 0xff):
                if corners_only and v not in (0x31,) and not all(regnum(x) in (0, 15) for x in (a, b, c)):
                    continue
                out.append(mk("avx_yyyi", mn, "yyyi", "%s %s, %s, %s, 0x%x" % (mn, a, b, c, v), [R(a), R(b), R(c), I(v)], 256, imm=v))
    for mn in AVX_MOV:
        for a in YMM:
            for b in YMM:
                out.append(mk("avx_mov_yy", mn, "yy", "%s %s, %s" % (mn, a, b), [R(a), R(b)], 256))
        for a in XMM:
            for b in XMM:
                out.append(mk("avx_mov_vv", mn, "vv", "%s %s, %s" % (mn, a, b), [R(a), R(b)], 128))
    return out


def gen_adx():
    out = []
    for mn in ("adcx", "adox"):
        for w in (32, 64):
            for a in BYW[w]:
                for b in BYW[w]:
                    out.append(mk("adx_rr", mn, "rr", "%s %s, %s" % (mn, a, b), [R(a), R(b)], w))
    return out


# ----------------------------------------------------------------- C02
DISP_MAG = [0, 1, 0x7f, 0x80, 0x81, 0xff, 0x100, 0x7fff, 0x8000, 0x7fffffff, 9, 96, 0x3456, 0xabcdef]  # last four: every digit leads / occurs once
DISPS = [None] + [d for d in DISP_MAG] + [-d for d in DISP_MAG if d] + [-0x80000000]
KW = {8: "byte", 16: "word", 32: "dword", 64: "qword"}


def render_mem(base, index, scale, order, disp, hexdisp=True):
    """AssemblyLine/nasm text of a memory operand (without size keyword)."""
    parts = []
    if base:
        parts.append(base)
    if index:
        if scale is None:
            parts.append(index)
        elif order == "is":
            parts.append("%s*%d" % (index, scale))
        else:
            parts.append("%d*%s" % (scale, index))
    s = "+".join(parts)
    if disp is not None:
        mag = abs(disp)
        d = ("0%d" % mag) if hexdisp == "dec0" else (("0x%x" % mag) if hexdisp else ("%d" % mag))
        if hexdisp == "wrap" and disp < 0 and s:
            s += "+0x%x" % (2 ** 64 + disp)  # a negative displacement written as its 64-bit two's complement
        elif s:
            s += ("-" if disp < 0 else "+") + d
        else:
            s = ("-" if disp < 0 else "") + d
    return "[" + s + "]"


def mem_exp(width, base, index, scale, disp, literal_sp_index=False):
    asz = REGW[base or index] if (base or index) else 64
    lin = []
    if base:
        lin.append((base, 1))
    if index and not literal_sp_index:
        lin.append((index, scale or 1))
    return ("m", width, asz, tuple(lin), disp or 0)


def shape_ok(base, index, scale, order, disp):
    if not base and not index:
        return disp is not None and -0x80000000 <= disp <= 0x7fffffff
    if index in ("rsp", "esp"):
        return scale is None and base and base not in ("rsp", "esp")
    if index and not base:
        return scale is not None and order == "si"
    if base and index and REGW[base] != REGW[index]:
        return False
    return True


def shapes(tier_full, rnd, per_combo_disps=2):
    """Yield (base, index, scale, order, disp, hexdisp). Stratified: every base x every
    index class x every scale/order, with displacement boundaries cycled + random."""
    bases = [None] + R64 + R32
    di = 0
    for base in bases:
        fam = R32 if (base in R32) else R64
        if tier_full:
            idxs = [None] + fam
        else:
            idxs = [None] + [fam[i] for i in (1, 9, 5, 13, 12, 4)] + [rnd.choice(fam)]
        for index in idxs:
            scopts = [(None, "is")] if index is None else [(None, "is")] + [(s, o) for s in (1, 2, 4, 8) for o in ("is", "si")]
            for scale, order in scopts:
                if tier_full:
                    ds = DISPS
                else:
                    ds = []
                    for _ in range(per_combo_disps):
                        ds.append(DISPS[di % len(DISPS)])
                        di += 1
                    ds.append(rnd.choice(DISPS))
                for disp in ds:
                    if not shape_ok(base, index, scale, order, disp):
                        continue
                    wrap_ok = disp is not None and disp < 0 and fam is R64 and (base or index)
                    if tier_full and disp is not None:
                        hs = (True, False, "dec0", "wrap") if wrap_ok else (True, False, "dec0")
                    else:
                        hs = ("wrap",) if (wrap_ok and rnd.random() < 0.25) else (rnd.choice((True, True, True, False, "dec0")),)
                    for hexdisp in hs:
                        yield base, index, scale, order, disp, hexdisp
    for disp in (0, 1, 4, 0x7f, 0x80, 0xff, 0x100, 0x1234, 0x7fffffff, -1, -8, -0x80, -0x81, -0x1234, -0x80000000):
        yield None, None, None, "is", disp, True
        yield None, None, None, "is", disp, False


# instruction classes taking a memory operand: (class, mnemonics, builder)
def _rm(mn, w, reg):
    return lambda M, E, kw: ("%s %s, %s%s" % (mn, reg, kw, M), [R(reg), E(w)])


def mem_classes(rnd):
    """list of (class name, width or None, needs_kw(bool), make(Mtext, E(width)->tuple, kwtext) -> (text, ops), kwmode)
    kwmode: 'opt' keyword optional (register gives the size), 'req' required (written), 'none' never written."""
    C = []

    def add(name, mn, w, kwmode, fn, **kw):
        C.append(dict(name=name, mn=mn, w=w, kwmode=kwmode, fn=fn, **kw))

    # the register operand ranges over EVERY register of the width (the deterministic sweep in gen_mem reaches each member under
    # four fixed shapes; the sampled shapes pick members at random)
    regs = {8: R8 + R8H, 16: list(R16), 32: list(R32), 64: list(R64)}
    for w in (8, 16, 32, 64):
        for reg in regs[w]:
            for mn in ALU + ["mov"]:
                add("alu_rm", mn, w, "opt", lambda M, E, k, mn=mn, reg=reg, w=w: ("%s %s, %s%s" % (mn, reg, k, M), [R(reg), E(w)]), reg=reg)
                add("alu_mr", mn, w, "opt", lambda M, E, k, mn=mn, reg=reg, w=w: ("%s %s%s, %s" % (mn, k, M, reg), [E(w), R(reg)]), reg=reg)
            add("test_mr", "test", w, "opt", lambda M, E, k, reg=reg, w=w: ("test %s%s, %s" % (k, M, reg), [E(w), R(reg)]), reg=reg)
            add("xchg_rm", "xchg", w, "opt", lambda M, E, k, reg=reg, w=w: ("xchg %s, %s%s" % (reg, k, M), [R(reg), E(w)]), reg=reg)
        for mn in ALU + ["mov", "test"]:
            add("alu_mi", mn, w, "req", lambda M, E, k, mn=mn, w=w: ("%s %s%s, 5" % (mn, k, M), [E(w), I(5)]), imm=5)
        for mn in UNARY:  # (one-operand imul has no memory form in the library)
            add("unary_m", mn, w, "req", lambda M, E, k, mn=mn, w=w: ("%s %s%s" % (mn, k, M), [E(w)]))
        for mn in SHIFT_CL:
            add("shift_m1", mn, w, "req", lambda M, E, k, mn=mn, w=w: ("%s %s%s, 1" % (mn, k, M), [E(w), I(1)]), imm=1)
            add("shift_mi", mn, w, "req", lambda M, E, k, mn=mn, w=w: ("%s %s%s, 5" % (mn, k, M), [E(w), I(5)]), imm=5)
            add("shift_mcl", mn, w, "req", lambda M, E, k, mn=mn, w=w: ("%s %s%s, cl" % (mn, k, M), [E(w), R("cl")]))
        for mn in ("rcr",):  # (ror has no memory form in the library)
            add("shift_mi", mn, w, "req", lambda M, E, k, mn=mn, w=w: ("%s %s%s, 5" % (mn, k, M), [E(w), I(5)]), imm=5)
    for w in (16, 32, 64):
        for reg in regs[w]:
            add("lea", "lea", None, "none", lambda M, E, k, reg=reg: ("lea %s, %s" % (reg, M), [R(reg), E(None)]), reg=reg)
            for mn in CMOV:
                add("cmov_rm", mn, w, "opt", lambda M, E, k, mn=mn, reg=reg, w=w: ("%s %s, %s%s" % (mn, reg, k, M), [R(reg), E(w)]), reg=reg)
            add("imul_rm", "imul", w, "opt", lambda M, E, k, reg=reg, w=w: ("imul %s, %s%s" % (reg, k, M), [R(reg), E(w)]), reg=reg)
            add("imul_rmi", "imul", w, "opt", lambda M, E, k, reg=reg, w=w: ("imul %s, %s%s, 5" % (reg, k, M), [R(reg), E(w), I(5)]), reg=reg, imm=5)
            add("movzx_rm8", "movzx", w, "req8", lambda M, E, k, reg=reg: ("movzx %s, byte %s" % (reg, M), [R(reg), E(8)]), reg=reg)
            for mn in ("shld", "shrd"):
                add("shld_mri", mn, w, "opt", lambda M, E, k, mn=mn, reg=reg, w=w: ("%s %s%s, %s, 5" % (mn, k, M, reg), [E(w), R(reg), I(5)]), reg=reg, imm=5)
            add("shld_mrcl", "shld", w, "opt", lambda M, E, k, reg=reg, w=w: ("shld %s%s, %s, cl" % (k, M, reg), [E(w), R(reg), R("cl")]), reg=reg)
    for reg in ("ecx", "r9d", "rcx", "r9"):
        add("movzx_rm16", "movzx", REGW[reg], "req16", lambda M, E, k, reg=reg: ("movzx %s, word %s" % (reg, M), [R(reg), E(16)]), reg=reg)
    for w in (32, 64):
        for reg in regs[w]:
            for mn in ("adcx", "adox"):
                add("adx_rm", mn, w, "opt", lambda M, E, k, mn=mn, reg=reg, w=w: ("%s %s, %s%s" % (mn, reg, k, M), [R(reg), E(w)]), reg=reg)
            for mn in BMI_RMV:
                add("bmi_rmr", mn, w, "opt", lambda M, E, k, mn=mn, reg=reg, w=w: ("%s %s, %s%s, %s" % (mn, reg, k, M, reg), [R(reg), E(w), R(reg)]), reg=reg)
            add("bmi_rrm", "mulx", w, "opt", lambda M, E, k, reg=reg, w=w: ("mulx %s, %s, %s%s" % (reg, reg, k, M), [R(reg), R(reg), E(w)]), reg=reg)
            add("rorx_rmi", "rorx", w, "opt", lambda M, E, k, reg=reg, w=w: ("rorx %s, %s%s, 5" % (reg, k, M), [R(reg), E(w), I(5)]), reg=reg, imm=5)
    add("push_m", "push", 64, "none64", lambda M, E, k: ("push %s%s" % (k, M), [E(64)]))
    add("jmp_m", "jmp", 64, "none64", lambda M, E, k: ("jmp %s%s" % (k, M), [E(64)]))
    add("call_m", "call", 64, "none64", lambda M, E, k: ("call %s%s" % (k, M), [E(64)]))
    for mn in SETCC:
        add("setcc_m", mn, 8, "none8", lambda M, E, k, mn=mn: ("%s %s%s" % (mn, k, M), [E(8)]))
    for mn in ("prefetcht0", "prefetcht1", "prefetcht2", "prefetchnta", "clflush"):
        add("hint_m", mn, 8, "none8", lambda M, E, k, mn=mn: ("%s %s%s" % (mn, k, M), [E(8)]))
    for x in ("xmm1", "xmm9"):
        for mn in [m for m in SSE_MMX if m != "pand"] + SSE_ONLY_RM + ["movntdqa"]:  # (pand xmm, m128 is not a form the library has)
            add("sse_vm", mn, 128, "nonev", lambda M, E, k, mn=mn, x=x: ("%s %s, %s" % (mn, x, M), [R(x), E(128)]), reg=x)
        add("movd_vm", "movd", 32, "nonev", lambda M, E, k, x=x: ("movd %s, %s" % (x, M), [R(x), E(32)]), reg=x)
        add("movd_mv", "movd", 32, "nonev", lambda M, E, k, x=x: ("movd %s, %s" % (M, x), [E(32), R(x)]), reg=x)
        add("movq_vm", "movq", 64, "nonev", lambda M, E, k, x=x: ("movq %s, %s" % (x, M), [R(x), E(64)]), reg=x)
        add("movq_mv", "movq", 64, "nonev", lambda M, E, k, x=x: ("movq %s, %s" % (M, x), [E(64), R(x)]), reg=x)
        for mn in AVX_BOTH:
            add("avx_vvm", mn, 128, "nonev", lambda M, E, k, mn=mn, x=x: ("%s %s, %s, %s" % (mn, x, x, M), [R(x), R(x), E(128)]), reg=x)
        for mn in AVX_MOV:
            add("avx_mov_vm", mn, 128, "nonev", lambda M, E, k, mn=mn, x=x: ("%s %s, %s" % (mn, x, M), [R(x), E(128)]), reg=x)
            add("avx_mov_mv", mn, 128, "nonev", lambda M, E, k, mn=mn, x=x: ("%s %s, %s" % (mn, M, x), [E(128), R(x)]), reg=x)
    for y in ("ymm1", "ymm9"):
        for mn in AVX_BOTH + AVX_256_ONLY:
            add("avx_yym", mn, 256, "nonev", lambda M, E, k, mn=mn, y=y: ("%s %s, %s, %s" % (mn, y, y, M), [R(y), R(y), E(256)]), reg=y)
        for mn in AVX_IMM:
            add("avx_yymi", mn, 256, "nonev", lambda M, E, k, mn=mn, y=y: ("%s %s, %s, %s, 0x31" % (mn, y, y, M), [R(y), R(y), E(256), I(0x31)]), reg=y, imm=0x31)
        for mn in AVX_MOV:
            add("avx_mov_ym", mn, 256, "nonev", lambda M, E, k, mn=mn, y=y: ("%s %s, %s" % (mn, y, M), [R(y), E(256)]), reg=y)
            add("avx_mov_my", mn, 256, "nonev", lambda M, E, k, mn=mn, y=y: ("%s %s, %s" % (mn, M, y), [E(256), R(y)]), reg=y)
    for mreg in ("mm1", "mm7"):
        for mn in SSE_MMX:
            add("mmx_rm", mn, 64, "nonev", lambda M, E, k, mn=mn, r=mreg: ("%s %s, %s" % (mn, r, M), [R(r), E(64)]), reg=mreg)
        add("movntq", "movntq", 64, "nonev", lambda M, E, k, r=mreg: ("movntq %s, %s" % (M, r), [E(64), R(r)]), reg=mreg)
    return C


SWEEP_SHAPES = [("rbx", None, None, "is", None, True), ("r9", "rcx", 2, "is", 0x10, True), ("rsp", "r13", 8, "is", -0x80, True), ("ebx", None, None, "is", 0x1000, False)]
STRUCTURAL = {"lea", "alu_rm", "alu_mi", "sse_vm", "avx_vvm", "bmi_rmr", "push_m", "movd_mv"}


def gen_mem(tier_full, rnd, classes=None, per_class=None):
    """Memory-operand cases: address shapes x instruction classes."""
    out = []
    cls = mem_classes(rnd)
    byname = {}
    for c in cls:
        byname.setdefault(c["name"], []).append(c)
    shp_quick = list(shapes(False, rnd))
    shp_full = list(shapes(True, rnd)) if tier_full else None
    for name, members in sorted(byname.items()):
        if classes and name not in classes:
            continue
        shp = shp_full if (tier_full and name in STRUCTURAL) else shp_quick
        n = len(shp) if per_class is None else min(per_class, len(shp))
        picks = shp if n == len(shp) else rnd.sample(shp, n)
        for (base, index, scale, order, disp, hexdisp) in picks:
            ext = (base and regnum(base) >= 8) or (index and regnum(index) >= 8)
            ms = [m for m in members if not (ext and m.get("reg") in R8H)] or members
            c = rnd.choice(ms)
            out.append(mem_case(c, base, index, scale, order, disp, hexdisp, rnd))
        # every member (mnemonic x width x register) of the class at least under a few fixed shapes, whatever the sampling above chose
        for c in members:
            for (base, index, scale, order, disp, hexdisp) in SWEEP_SHAPES:
                if c.get("reg") in R8H and ((base and regnum(base) >= 8) or (index and regnum(index) >= 8)):
                    continue
                out.append(mem_case(c, base, index, scale, order, disp, hexdisp, rnd))
    return out


def mem_case(c, base, index, scale, order, disp, hexdisp, rnd=None, kw_written=None):
    M = render_mem(base, index, scale, order, disp, hexdisp)
    w = c["w"]
    kwmode = c["kwmode"]
    if kw_written is None:
        kw_written = kwmode == "req" or (kwmode == "opt" and (rnd.random() < 0.5 if rnd else False))
    k = (KW[w] + " ") if (kw_written and kwmode in ("opt", "req")) else ""
    E = lambda width: mem_exp(width, base, index, scale, disp)
    text, ops = c["fn"](M, E, k)
    # nasm spelling: always give nasm the size where it needs one
    nk = ""
    if kwmode in ("opt", "req"):
        nk = KW[w] + " "
    elif kwmode == "none64":
        nk = "qword "
    elif kwmode == "none8" and c["mn"].startswith("set"):
        nk = "byte "
    ntext, _ = c["fn"](M, E, nk)
    case = mk("mem_" + c["name"], c["mn"], c["name"], text, ops, w, nasm=ntext)
    case.update(base=base, index=index, scale=scale, order=order, disp=disp, hexdisp=hexdisp, kw=bool(k),
                asz=(REGW[base or index] if (base or index) else 64), mreg=c.get("reg"), mimm=c.get("imm"))
    case["base_n"] = regnum(base) if base else None
    case["index_n"] = regnum(index) if index else None
    return case


# ----------------------------------------------------------------- C03
def imm_values(rnd, nrand=3):
    vs = set([0, 1, 2])
    for c in (0x7f, 0xff, 0x7fff, 0xffff, 0x7fffffff, 0xffffffff):
        for d in (-1, 0, 1, 2):
            vs.add(c + d)
    vs |= {2**63 - 1, 2**63, 2**64 - 1, 2**63 + 1, 2**64 - 2}
    for c in (0xff80, 0xffffff80, 2**64 - 0x80, 2**64 - 0x80000000):  # unsigned spellings of small negatives
        vs |= {c - 1, c, c + 1}
    vs |= {0xfffd, 0xfffffffd, 0xe0, 0xe1}
    # every decimal and hexadecimal digit as leading and as inner digit (the boundary values alone never start with 9, c or d)
    vs |= {9, 90, 99, 0x9a, 0xbc, 0xcd, 0xde, 0xab, 3456, 6789, 0x4567, 0x89ab, 0xcdef, -9, -96, -0xcd}
    for c in (1, 2, 0x7f, 0x80, 0x81, 0xff, 0x100, 0x7fff, 0x8000, 0x8001, 0xffff, 0x10000, 0x7fffffff, 0x80000000, 0x80000001):
        vs.add(-c)
    vs |= {-(2**63), -(2**63) + 1, -0xffffffff, -0x100000000}
    for nb in range(1, 9):
        for _ in range(nrand):
            x = rnd.getrandbits(8 * nb) | (1 << (8 * nb - 1 - rnd.randrange(2)))
            vs.add(x)
            if x < 2**63:
                vs.add(-x)
    return sorted(vs)


def spellings(v, rnd=None, all_=False, wrap=False):
    """Textual spellings of an integer in AssemblyLine/nasm syntax. wrap: also the NEGATED spellings of 2^64 - v (64-bit destinations
    only): '-0xffffffff00000001' is 0xffffffff written with a sign and all 16 hex digits, '-18446744069414584321' its decimal twin."""
    mag = abs(v)
    sg = "-" if v < 0 else ""
    out = [("hex", sg + "0x%x" % mag), ("dec", sg + "%d" % mag)]
    hexd = "%x" % mag
    if len(hexd) < 15:
        out.append(("hex0", sg + "0x" + "0" * (1 + (len(hexd) % 3)) + hexd))
    if len(hexd) <= 16:
        out.append(("hex16", sg + "0x" + hexd.rjust(16, "0")))
    if len(hexd) < 15:
        out.append(("hex15", sg + "0x" + hexd.rjust(15, "0")))  # one digit short of "all 16 digits"
    decd = "%d" % mag
    for width in (len(decd) + 1, 16, 18, 20, 24):  # decimals with leading zeros are decimals (nasm agrees), whatever their length
        if width > len(decd):
            out.append(("dec0", sg + decd.rjust(width, "0")))
    if wrap and 0 < v < 2**64:
        w_ = 2**64 - v
        if w_ >= 2**60:
            out.append(("hex16", "-0x%016x" % w_))
            out.append(("hex16", "-0X%016X" % w_))
        else:
            out.append(("hex", "-0x%x" % w_))
        out.append(("dec", "-%d" % w_))
    if all_ or rnd is None:
        return out
    return [out[0], out[1]] + ([rnd.choice(out[2:])] if len(out) > 2 else [])


def fits(v, w, kind):
    """Is v representable for an immediate operand of this kind at destination width w?"""
    if kind == "imm8u":
        return 0 <= v <= 255
    if kind == "mov64":
        return -(2**63) <= v < 2**64
    if kind == "sx32":  # imm32 sign-extended to 64 (ALU r/m64, mov m64, push)
        return -(2**31) <= v < 2**31
    return -(2**(w - 1)) <= v < 2**w


IMM_MEMS = [("rbx", None, None, None), ("rbx", "rcx", 2, None), ("rax", "rcx", 2, None), ("r9", None, None, 0x10), ("rax", None, None, None)]


def gen_imm(rnd, full=False):
    out = []
    vals = imm_values(rnd, 3 if not full else 12)
    regsets = {8: ["al", "cl", "dh", "sil", "r9b"], 16: ["ax", "cx", "r9w"], 32: ["eax", "ecx", "r9d"], 64: ["rax", "rcx", "r9"]}

    def emit(fam, mn, form, w, kind, build, **kw):
        for v in vals:
            if not fits(v, w, kind):
                continue
            for sp, txt in spellings(v, rnd, all_=full):
                text, ntext, ops = build(txt, v)
                c = mk(fam, mn, form, text, ops, w, nasm=ntext, imm=v, spell=sp, **kw)
                c["imm_neg"] = v < 0
                c["imm_bytes"] = max(1, (abs(v).bit_length() + 7) // 8)
                out.append(c)

    for mn in ALU + ["mov", "test"]:
        for w in (8, 16, 32, 64):
            kind = ("mov64" if (mn == "mov") else "sx32") if w == 64 else "w"
            for reg in regsets[w]:
                def b(txt, v, mn=mn, reg=reg):
                    t = "%s %s, %s" % (mn, reg, txt)
                    return t, t, [R(reg), I(v)]
                emit("imm_ri", mn, "ri", w, kind, b, reg=reg, acc=(regnum(reg) == 0))
            kindm = "sx32" if w == 64 else "w"
            for (base, index, scale, disp) in (IMM_MEMS if full else IMM_MEMS[:4]):
                M = render_mem(base, index, scale, "is", disp)
                def b(txt, v, mn=mn, w=w, M=M, base=base, index=index, scale=scale, disp=disp):
                    t = "%s %s %s, %s" % (mn, KW[w], M, txt)
                    return t, t, [mem_exp(w, base, index, scale, disp), I(v)]
                emit("imm_mi", mn, "mi", w, kindm, b, base=base, index=index)
    # every destination register of every width, and further memory destinations, under a reduced value set (the boundaries only)
    vals_all = vals
    vals = sorted(set(v for v in vals_all if abs(v) in (0, 1, 0x7f, 0x80, 0x81, 0xff, 0x100, 0x7fff, 0x8000, 0xffff, 0x10000, 0x7fffffff, 0x80000000, 0xffffffff, 0x100000000, 2**63, 2**64 - 1)))
    more_mems = [("rbx", "rcx", 8, 0x11223344), ("ebx", "ecx", 2, 0x10), ("r12", None, None, None), ("r13", None, None, None), ("rsp", None, None, 8), ("rbp", "r9", 4, -0x80),
                 (None, None, None, 0x1000), (None, "r10", 4, 0x100)]
    for mn in ALU + ["mov", "test"]:
        for w in (8, 16, 32, 64):
            kind = ("mov64" if (mn == "mov") else "sx32") if w == 64 else "w"
            for reg in (R8 + R8H if w == 8 else BYW[w]):
                if reg in regsets[w]:
                    continue
                def b(txt, v, mn=mn, reg=reg):
                    t = "%s %s, %s" % (mn, reg, txt)
                    return t, t, [R(reg), I(v)]
                emit("imm_ri", mn, "ri", w, kind, b, reg=reg, acc=(regnum(reg) == 0))
            kindm = "sx32" if w == 64 else "w"
            for (base, index, scale, disp) in more_mems:
                M = render_mem(base, index, scale, "si" if (index and not base) else "is", disp)
                def b(txt, v, mn=mn, w=w, M=M, base=base, index=index, scale=scale, disp=disp):
                    t = "%s %s %s, %s" % (mn, KW[w], M, txt)
                    return t, t, [mem_exp(w, base, index, scale, disp), I(v)]
                emit("imm_mi", mn, "mi", w, kindm, b, base=base, index=index)
    # three-operand forms whose MIDDLE (or first) operand is memory: the immediate's width follows the register, not the address
    memsel = [("rbx", None, None, None), ("rbx", "rcx", 2, 0x10), (None, "rbx", 4, 0x10), (None, "r9d", 8, -0x80), ("r13", "r12", 1, 0x11223344), (None, None, None, 0x1000)]
    for w in (16, 32, 64):
        for reg in (regsets[w][1], regsets[w][-1], BYW[w][5], BYW[w][12]):
            for (base, index, scale, disp) in memsel:
                M = render_mem(base, index, scale, "si" if (index and not base) else "is", disp)
                def b(txt, v, reg=reg, w=w, M=M, base=base, index=index, scale=scale, disp=disp):
                    t = "imul %s, %s, %s" % (reg, M, txt)
                    n = "imul %s, %s %s, %s" % (reg, KW[w], M, txt)
                    return t, n, [R(reg), mem_exp(w, base, index, scale, disp), I(v)]
                emit("imm_imul_rmi", "imul", "rmi", w, "sx32" if w == 64 else "w", b, reg=reg, base=base, index=index)
    vals = [v for v in vals_all if 0 <= v <= 255][:: 1]
    for w in (32, 64):
        for reg in (regsets[w][1], regsets[w][-1]):
            for (base, index, scale, disp) in memsel:
                M = render_mem(base, index, scale, "si" if (index and not base) else "is", disp)
                def b(txt, v, reg=reg, w=w, M=M, base=base, index=index, scale=scale, disp=disp):
                    t = "rorx %s, %s, %s" % (reg, M, txt)
                    n = "rorx %s, %s %s, %s" % (reg, KW[w], M, txt)
                    return t, n, [R(reg), mem_exp(w, base, index, scale, disp), I(v)]
                emit("imm_rorx_rmi", "rorx", "rmi", w, "imm8u", b, reg=reg, base=base, index=index)
    for (base, index, scale, disp) in memsel:
        M = render_mem(base, index, scale, "si" if (index and not base) else "is", disp)
        for mn in AVX_IMM:
            def b(txt, v, mn=mn, M=M, base=base, index=index, scale=scale, disp=disp):
                t = "%s ymm1, ymm9, %s, %s" % (mn, M, txt)
                return t, t, [R("ymm1"), R("ymm9"), mem_exp(256, base, index, scale, disp), I(v)]
            emit("imm_vperm_m", mn, "yymi", 256, "imm8u", b, base=base, index=index)
        for mn in ("shld", "shrd"):
            for w in (16, 32, 64):
                reg = regsets[w][-1]
                def b(txt, v, mn=mn, reg=reg, w=w, M=M, base=base, index=index, scale=scale, disp=disp):
                    t = "%s %s %s, %s, %s" % (mn, KW[w], M, reg, txt)
                    return t, t, [mem_exp(w, base, index, scale, disp), R(reg), I(v)]
                emit("imm_shxd_mri", mn, "mri", w, "imm8u", b, reg=reg, base=base, index=index)
    vals = vals_all
    for w in (16, 32, 64):
        for reg in regsets[w][:2] + [regsets[w][-1]]:
            def b(txt, v, reg=reg):
                t = "imul %s, %s, %s" % (reg, reg, txt)
                return t, t, [R(reg), R(reg), I(v)]
            emit("imm_imul_rri", "imul", "rri", w, "sx32" if w == 64 else "w", b, reg=reg)
    for mn in SHIFT_IMM:
        for w in (8, 16, 32, 64):
            for reg in regsets[w][:2] + [regsets[w][-1]]:
                def b(txt, v, mn=mn, reg=reg):
                    t = "%s %s, %s" % (mn, reg, txt)
                    return t, t, [R(reg), I(v)]
                emit("imm_shift_ri", mn, "ri", w, "imm8u", b, reg=reg)
            if mn != "ror":
                def b(txt, v, mn=mn, w=w):
                    t = "%s %s [rbx+rcx*2], %s" % (mn, KW[w], txt)
                    return t, t, [mem_exp(w, "rbx", "rcx", 2, None), I(v)]
                emit("imm_shift_mi", mn, "mi", w, "imm8u", b)
    for w in (32, 64):
        for reg in regsets[w][1:]:
            def b(txt, v, reg=reg):
                t = "rorx %s, %s, %s" % (reg, reg, txt)
                return t, t, [R(reg), R(reg), I(v)]
            emit("imm_rorx", "rorx", "rri", w, "imm8u", b, reg=reg)
    for mn in ("shld", "shrd"):
        for w in (16, 32, 64):
            reg = regsets[w][1]
            def b(txt, v, mn=mn, reg=reg):
                t = "%s %s, %s, %s" % (mn, reg, reg, txt)
                return t, t, [R(reg), R(reg), I(v)]
            emit("imm_shxd_rri", mn, "rri", w, "imm8u", b, reg=reg)
            def b(txt, v, mn=mn, reg=reg, w=w):
                t = "%s %s [rbx], %s, %s" % (mn, KW[w], reg, txt)
                return t, t, [mem_exp(w, "rbx", None, None, None), R(reg), I(v)]
            emit("imm_shxd_mri", mn, "mri", w, "imm8u", b, reg=reg)

    def b(txt, v):
        return "push " + txt, "push qword " + txt if False else "push " + txt, [I(v)]
    emit("imm_push", "push", "i", 64, "sx32", b)

    def b(txt, v):
        return "xabort " + txt, "xabort " + txt, [I(v)]
    emit("imm_xabort", "xabort", "i", 8, "imm8u", b)
    for x in ("xmm1", "xmm9"):
        def b(txt, v, x=x):
            t = "psrldq %s, %s" % (x, txt)
            return t, t, [R(x), I(v)]
        emit("imm_psrldq", "psrldq", "vi", 128, "imm8u", b, reg=x)
    for mn in AVX_IMM:
        def b(txt, v, mn=mn):
            t = "%s ymm1, ymm9, ymm2, %s" % (mn, txt)
            return t, t, [R("ymm1"), R("ymm9"), R("ymm2"), I(v)]
        emit("imm_vperm", mn, "yyyi", 256, "imm8u", b)
    # mov r64, imm: either the 64-bit destination or (for 0 <= v <= 0xffffffff) its zero-extending
    # 32-bit form is the same instruction semantically; which one is chosen is C11's business.
    for c in out:
        if c["fam"] == "imm_ri" and c["mn"] == "mov" and c["w"] == 64 and 0 <= c["imm"] <= 0xffffffff:
            r32 = R32[R64.index(c["reg"])]
            c["alt"] = [canon_expected("mov", [R(r32), I(c["imm"])])]
    return out


# ----------------------------------------------------------------- C05
REL8_ONLY = {"jrcxz"}
REL32_ONLY = {"call", "xbegin"}
NEAR_LEN = {"jmp": 5, "call": 5, "xbegin": 6}


def branch_model(mn, kw, d):
    """What the property allows: set of admissible outcomes among {'rel8','rel32','reject'};
    None = statement silent (any outcome, but an accepted line must still encode d)."""
    in8 = -128 <= d <= 127
    in32 = -(2**31) <= d < 2**31
    if not in32:
        return None
    if mn in REL8_ONLY:
        if not in8:
            return {"reject"}
        if kw is None:
            return {"rel8"}
        return {"rel8", "reject"} if kw == "short" else None
    if mn in REL32_ONLY:
        if kw == "short":
            return None
        return {"rel32"}
    if kw == "short":
        return {"rel8", "reject"} if in8 else {"reject"}
    if kw == "long":
        return {"rel32"}
    return {"rel8", "rel32"} if in8 else {"rel32"}


def gen_branch(rnd, nrand=64, full=False):
    out = []
    ds = set(range(-129, 129))
    ds |= set(range(-260, -129)) | set(range(129, 261))  # the band in which a sign confusion of an 8-bit value would show (0x80..0xff)
    ds |= {0x100, 0x10000, -0x10000, 0x1000000, 0x7f00, -0x7f00, 0x8000, 0x80000000 - 0x100}  # byte patterns (a zero low byte, 0x80 in the second byte)
    for c in (2**15, 2**31):
        for s in (1, -1):
            for e in (-1, 0, 1):
                ds.add(s * c + e)
    ds |= {2**31 - 1, -(2**31), 2**31, -(2**31) - 1, 0x7fffff00, -0x7fffff00}
    for _ in range(nrand):
        ds.add(rnd.randrange(-(2**31), 2**31))
        ds.add(rnd.randrange(-(2**15), 2**15))
    ds = sorted(d for d in ds if -(2**31) <= d < 2**31)  # outside: the statement is silent
    for mn in ["jmp", "call", "jrcxz", "xbegin"] + JCC:
        for kw in (None, "short", "long"):
            for d in ds:
                model = branch_model(mn, kw, d)
                for hexsp in (False, True):
                    if not full and not (-260 <= d <= 260) and rnd.random() < 0.5:
                        continue
                    mag = abs(d)
                    txt = ("-" if d < 0 else "") + (("0x%x" % mag) if hexsp else "%d" % mag)
                    text = "%s %s%s" % (mn, (kw + " ") if kw else "", txt)
                    in8 = -128 <= d <= 127
                    use8 = (mn in REL8_ONLY) or (in8 and kw != "long" and mn not in REL32_ONLY)
                    if use8:
                        nasm = "%s %s$+2+(%d)" % (mn, "" if mn in REL8_ONLY else "short ", d)
                    else:
                        nl = NEAR_LEN.get(mn, 6)
                        nasm = "%s %s$+%d+(%d)" % (mn, "near " if mn not in ("call", "xbegin") else "", nl, d)
                    c = mk("branch_rel", mn, "rel", text, [("rel", d)], None, nasm=nasm, d=d, kw=kw, hexsp=hexsp)
                    c["model"] = sorted(model) if model is not None else None
                    c["in8"] = in8
                    if model == {"reject"} or not (-(2**31) <= d < 2**31):
                        c["noref"] = True
                    out.append(c)
    return out


def gen_branch_indirect():
    out = []
    for mn in ("jmp", "call"):
        for r in R64:
            out.append(mk("branch_r", mn, "r", "%s %s" % (mn, r), [R(r)], 64))
    return out


def gen_far(rnd, full=False):
    """far jmp/call through memory with word/dword/qword (and no) size keyword, over base x index x scale x displacement shapes."""
    out = []
    combos = []
    for base in ("rax", "rbp", "r12", "r13", "rsp", "ebx", "r9"):
        combos.append((base, None, None, "is"))
    for base in ("rax", "rbx", "r8", "r13", "rsp", "rbp", None):
        for index in ("rcx", "r9", "r12", "r15", "rbp"):
            for scale, order in ((None, "is"), (1, "is"), (2, "is"), (4, "si"), (8, "is")):
                combos.append((base, index, scale, order))
    for base, index in (("ebx", "ecx"), ("r8d", "r9d"), ("eax", "r15d"), (None, "r10d")):
        for scale, order in ((None, "is"), (2, "si"), (8, "is")):
            combos.append((base, index, scale, order))
    for mn in ("jmp", "call"):
        for (base, index, scale, order) in combos:
            disps = (None, 0x7f, 0x80, -0x80) if (full or index is None) else (rnd.choice((None, 0x10, -0x80)), rnd.choice((0x80, 0x7fffffff, -0x81)))
            for disp in disps:
                if not shape_ok(base, index, scale, order, disp):
                    continue
                for kw, nkw in ((None, "qword"), ("word", "word"), ("dword", "dword"), ("qword", "qword")):
                    M = render_mem(base, index, scale, order, disp)
                    text = "%s far %s%s" % (mn, (kw + " ") if kw else "", M)
                    nasm = "%s far %s %s" % (mn, nkw, M)
                    c = mk("branch_far", mn, "far_m", text, [], 64, nasm=nasm, base=base, index=index, scale=scale, disp=disp, kw=kw)
                    m = canon_expected("x", [mem_exp(None, base, index, scale, disp)])[1]  # (the linear form in canonical order)
                    c["exp"] = (mn + "f", m, ("i", {"word": 16, "dword": 32, "qword": 64}[nkw]))
                    c["far_size"] = nkw
                    out.append(c)
    return out


# ----------------------------------------------------------------- longest encodings (C07 reserve stage, C09 stage b2)
def long_lines(rnd, full=False, n_quick=700):
    """Lines that make the library emit its longest byte sequences: ALU/test/mov x memory shapes (incl. ones written number-first)
    x size keywords x immediates of 1-8 bytes - also immediates the destination cannot hold: whatever the library does with them,
    it must stay within its own 20-byte reserve and within every scratch buffer it uses."""
    mems = ["[rax]", "[rax+rbx*8+0x11223344]", "[eax+ebx*8+0x11223344]", "[r8d+r9d*8-0x11223344]", "[4*r12+0x100]", "[0x11223344]", "[rsp+r13*2+0x80]",
            "[0x12345678+r10d*8]", "[0x12345678+r10*8]", "[8+rax]", "[-0x80+r13+r9*4]", "[8*r10d+0x12345678]"]
    imms = ["1", "0x7f", "0x80", "0x1122", "0x11223344", "0x80000000", "0x1122334455", "0x1122334455667788", "-1", "-0x1122334455", "0xffffffffffffffff"]
    out = []
    for mn in ALU + ["test", "mov"]:
        for mm in mems:
            for kw in ("", "byte ", "word ", "dword ", "qword "):
                for im in imms:
                    out.append("%s %s%s, %s" % (mn, kw, mm, im))
    tail = ["mov r15, 0x1122334455667788", "imul r9, [eax+ebx*8+0x11223344], 0x11223344", "imul r9w, [eax+ebx*8+0x11223344], 0x1122", "shld [r8d+r9d*8+0x11223344], r10, 0x7f",
            "shld word [r8d+r9d*8+0x11223344], r10w, 5", "vperm2i128 ymm9, ymm10, [r8d+r9d*8+0x11223344], 0xff", "vpaddb ymm9, ymm10, [r8d+r9d*8+0x11223344]", "push 0x11223344", "push 0x1122334455",
            "jmp far qword [r8d+r9d*8+0x11223344]", "call qword [r8d+r9d*8+0x11223344]", "movq xmm9, [r8d+r9d*8+0x11223344]", "pmulhrsw xmm9, [r8d+r9d*8+0x11223344]", "rorx r9, [r8d+r9d*8+0x11223344], 63",
            "bextr r9, [r8d+r9d*8+0x11223344], r10", "xbegin 0x11223344", "mov word [r8d+r9d*8+0x11223344], 0x1122", "nop11", "cmovnbe r9w, [r8d+r9d*8+0x11223344]", "movzx r9w, byte [r8d+r9d*8+0x11223344]",
            "lea rax, [0x12345678+r10d*8]", "test qword [0x12345678+r10d*8], 0x1122334455667788", "imul r9, [0x12345678+r10d*8], 0x11223344"]
    if not full:
        out = rnd.sample(out, n_quick)
    return out + tail
