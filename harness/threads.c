/*
 * threads.c - C18 workload: N threads each create / configure / assemble /
 * destroy PRIVATE instances concurrently; every result is compared with a
 * single-threaded reference computed in a forked child BEFORE any library call
 * in this process (so the very first asm_create_instance calls - the only
 * moment the global lookup tables change value - overlap in the threads).
 *
 *   threads <programs-file> <nthreads> <iterations> <seed> [stagger_us] [cold_trials]
 * cold_trials > 0: after the reference has been computed (in a forked child), <cold_trials> fresh child processes are forked,
 * none of which has ever entered the library; in each, the threads are released by a spin barrier with a per-thread delay of
 * 0..5000 ns and perform their FIRST library calls (create -> options -> assemble -> destroy) concurrently - the only moment at
 * which lazily built shared tables change. Output line: "K <trials> <ops> <mismatches>".
 * programs-file: one program per line, hex encoded text.
 * stdout: "M ..." per mismatch (first 50), then "T <threads> <iters> <ops> <mismatches>"
 */
#define _GNU_SOURCE 1
#include <assemblyline.h>
#include <pthread.h>
#include <sched.h>
#include <stdint.h>
#include <stdio.h>
#include <stdlib.h>
#include <string.h>
#include <sys/mman.h>
#include <sys/wait.h>
#include <time.h>
#include <unistd.h>

#define MAXP 512
#define NMASK 12
#define NMODE 3 /* 0 plain, 1 fitting(16), 2 counting(8) */
#define BUFSZ 8192

static char *prog[MAXP];
static int nprog;

struct ref {
  int rc, off, count;
  uint64_t hash;
};
static struct ref *REF; /* [nprog][NMASK][NMODE][internal 0/1], MAP_SHARED */

#define RIDX(p, m, mode, internal) ((((p)*NMASK + (m)) * NMODE + (mode)) * 2 + ((internal) ? 1 : 0))

static uint64_t fnv(const uint8_t *b, long n) {
  uint64_t h = 1469598103934665603ULL;
  for (long i = 0; i < n; i++)
    h = (h ^ b[i]) * 1099511628211ULL;
  return h;
}

static void apply_mask(assemblyline_t al, int m) {
  asm_mov_imm(al, (enum asm_opt)(m / 4));
  asm_sib_index_base_swap(al, (enum asm_opt)((m / 2) % 2));
  asm_sib_no_base(al, (enum asm_opt)(m % 2));
}

static void one(int p, int m, int mode, int internal, uint8_t *buf,
                struct ref *out, unsigned *rs, int yields) {
  assemblyline_t al = asm_create_instance(internal ? NULL : buf, BUFSZ);
  if (yields && (rand_r(rs) & 3) == 0)
    sched_yield();
  apply_mask(al, m);
  if (mode == 1)
    asm_set_chunk_size(al, 16);
  if (yields && (rand_r(rs) & 7) == 0) {
    struct timespec ts = {0, 1000 * (rand_r(rs) % 50)};
    nanosleep(&ts, NULL);
  }
  int count = -1, rc;
  if (mode == 2) {
    char *copy = strdup(prog[p]);
    rc = asm_assemble_string_counting_chunks(al, copy, 8, &count);
    free(copy);
  } else
    rc = asm_assemble_str(al, prog[p]);
  out->rc = rc;
  out->off = asm_get_offset(al);
  out->count = count;
  out->hash = (rc == 0 && out->off >= 0 && (internal || out->off <= BUFSZ))
                  ? fnv(asm_get_code(al), out->off)
                  : 0;
  if (yields && (rand_r(rs) & 3) == 0)
    sched_yield();
  asm_destroy_instance(al);
}

static pthread_barrier_t bar;
static int iters, stagger_us;
static unsigned seed0;
static long mismatches, ops;
static pthread_mutex_t mu = PTHREAD_MUTEX_INITIALIZER;

static void *worker(void *arg) {
  long id = (long)arg;
  unsigned rs = seed0 * 7919u + (unsigned)id * 104729u + 1;
  uint8_t *buf = malloc(BUFSZ);
  long mm = 0, n = 0;
  pthread_barrier_wait(&bar);
  if (stagger_us) {
    struct timespec ts = {0, 1000L * ((id * stagger_us) % 997)};
    nanosleep(&ts, NULL);
  }
  for (int it = 0; it < iters; it++) {
    int p = rand_r(&rs) % nprog, m = rand_r(&rs) % NMASK, mode = rand_r(&rs) % NMODE;
    int internal = (rand_r(&rs) & 3) == 0;
    struct ref got;
    one(p, m, mode, internal, buf, &got, &rs, 1);
    struct ref *w = &REF[RIDX(p, m, mode, internal)];
    n++;
    if (got.rc != w->rc || got.off != w->off || got.count != w->count ||
        got.hash != w->hash) {
      mm++;
      pthread_mutex_lock(&mu);
      if (mismatches + mm <= 50)
        printf("M thread=%ld it=%d prog=%d mask=%d mode=%d got=%d/%d/%d/%016llx "
               "want=%d/%d/%d/%016llx\n",
               id, it, p, m, mode, got.rc, got.off, got.count,
               (unsigned long long)got.hash, w->rc, w->off, w->count,
               (unsigned long long)w->hash);
      pthread_mutex_unlock(&mu);
    }
  }
  pthread_mutex_lock(&mu);
  mismatches += mm;
  ops += n;
  pthread_mutex_unlock(&mu);
  free(buf);
  return NULL;
}

/* ---------------------------------------------------------------- cold-start trials */
#include <stdatomic.h>
static _Atomic int cold_arrived;
static int cold_n;
static long cold_delta_ns;
static long *cold_mm; /* MAP_SHARED: [0] mismatches [1] ops, written by the trial children */

static inline long now_ns(void) {
  struct timespec ts;
  clock_gettime(CLOCK_MONOTONIC, &ts);
  return ts.tv_sec * 1000000000L + ts.tv_nsec;
}

static void *cold_worker(void *arg) {
  long id = (long)arg;
  unsigned rs = seed0 * 31u + (unsigned)id * 977u + (unsigned)cold_delta_ns;
  /* first-call costs that are not the library's: stack pages, this thread's malloc arena */
  volatile char pad[8192];
  for (int i = 0; i < 8192; i += 512)
    pad[i] = 1;
  uint8_t *buf = malloc(BUFSZ);
  memset(buf, 0xCC, BUFSZ);
  int p = rand_r(&rs) % nprog, m = rand_r(&rs) % NMASK, mode = rand_r(&rs) % NMODE;
  atomic_fetch_add(&cold_arrived, 1);
  while (atomic_load(&cold_arrived) < cold_n)
    ;
  long t0 = now_ns();
  while (now_ns() - t0 < id * cold_delta_ns)
    ;
  long mm = 0, n = 0;
  for (int it = 0; it < 3; it++) {
    struct ref got;
    one(p, m, mode, it == 1, buf, &got, &rs, 0);
    struct ref *w = &REF[RIDX(p, m, mode, it == 1)];
    n++;
    if (got.rc != w->rc || got.off != w->off || got.count != w->count || got.hash != w->hash) {
      mm++;
      pthread_mutex_lock(&mu);
      if (__atomic_load_n(&cold_mm[0], __ATOMIC_RELAXED) + mm <= 10)
        printf("M cold thread=%ld it=%d prog=%d mask=%d mode=%d delta=%ldns got=%d/%d/%d/%016llx want=%d/%d/%d/%016llx\n", id, it, p, m, mode,
               cold_delta_ns, got.rc, got.off, got.count, (unsigned long long)got.hash, w->rc, w->off, w->count,
               (unsigned long long)w->hash);
      pthread_mutex_unlock(&mu);
    }
    p = rand_r(&rs) % nprog;
    m = rand_r(&rs) % NMASK;
    mode = rand_r(&rs) % NMODE;
  }
  __atomic_fetch_add(&cold_mm[0], mm, __ATOMIC_RELAXED);
  __atomic_fetch_add(&cold_mm[1], n, __ATOMIC_RELAXED);
  free(buf);
  return NULL;
}

static void cold_trials(int trials, int nthreads) {
  static const long DELTAS[] = {0, 50, 100, 200, 400, 800, 1500, 5000};
  cold_mm = mmap(NULL, 4096, PROT_READ | PROT_WRITE, MAP_SHARED | MAP_ANONYMOUS, -1, 0);
  int done = 0;
  for (int t = 0; t < trials; t++) {
    fflush(stdout);
    pid_t pid = fork();
    if (pid == 0) {
      cold_n = 2 + (t % (nthreads > 2 ? nthreads - 1 : 1));
      if (cold_n > 16)
        cold_n = 16;
      cold_delta_ns = DELTAS[(t / 3) % 8];
      seed0 = seed0 * 131u + (unsigned)t;
      atomic_store(&cold_arrived, 0);
      pthread_t th[16];
      for (long i = 0; i < cold_n; i++)
        pthread_create(&th[i], NULL, cold_worker, (void *)i);
      for (int i = 0; i < cold_n; i++)
        pthread_join(th[i], NULL);
      fflush(stdout);
      _exit(0);
    }
    if (pid < 0) { /* fork refused (process limit, memory): not a verdict about the library, the trial is not counted */
      usleep(1000);
      continue;
    }
    int st = 0;
    waitpid(pid, &st, 0);
    if (!WIFEXITED(st) || WEXITSTATUS(st) != 0) {
      printf("E cold trial %d died: status %d\n", t, st);
      __atomic_fetch_add(&cold_mm[0], 1, __ATOMIC_RELAXED);
    }
    done++;
  }
  printf("K %d %ld %ld\n", done, cold_mm[1], cold_mm[0]);
}

static int unhex(const char *h, char **out) {
  size_t n = strlen(h);
  char *b = malloc(n / 2 + 1);
  for (size_t i = 0; i + 1 < n; i += 2) {
    int hi = h[i], lo = h[i + 1];
    hi = hi <= '9' ? hi - '0' : (hi | 32) - 'a' + 10;
    lo = lo <= '9' ? lo - '0' : (lo | 32) - 'a' + 10;
    if ((hi | lo) & ~15) {
      free(b);
      return -1;
    }
    b[i / 2] = (char)(hi << 4 | lo);
  }
  b[n / 2] = 0;
  *out = b;
  return 0;
}

int main(int argc, char **argv) {
  if (argc < 5)
    return 2;
  FILE *f = fopen(argv[1], "r");
  if (!f)
    return 2;
  char *line = NULL;
  size_t cap = 0;
  ssize_t len;
  while ((len = getline(&line, &cap, f)) > 0 && nprog < MAXP) {
    while (len > 0 && (line[len - 1] == '\n' || line[len - 1] == '\r'))
      line[--len] = 0;
    if (len && !unhex(line, &prog[nprog]))
      nprog++;
  }
  fclose(f);
  int nthreads = atoi(argv[2]);
  iters = atoi(argv[3]);
  seed0 = (unsigned)atoi(argv[4]);
  stagger_us = argc > 5 ? atoi(argv[5]) : 0;
  /* stderr of the library (diagnostics of rejected lines) is noise here */
  size_t sz = sizeof(struct ref) * (size_t)nprog * NMASK * NMODE * 2;
  REF = mmap(NULL, sz, PROT_READ | PROT_WRITE, MAP_SHARED | MAP_ANONYMOUS, -1, 0);
  fflush(stdout);
  pid_t pid = fork();
  if (pid == 0) {
    unsigned rs = 1;
    uint8_t *buf = malloc(BUFSZ);
    for (int p = 0; p < nprog; p++)
      for (int m = 0; m < NMASK; m++)
        for (int mode = 0; mode < NMODE; mode++)
          for (int in = 0; in < 2; in++)
            one(p, m, mode, in, buf, &REF[RIDX(p, m, mode, in)], &rs, 0);
    _exit(0);
  }
  int st = 0;
  waitpid(pid, &st, 0);
  if (!WIFEXITED(st) || WEXITSTATUS(st) != 0) {
    printf("E reference child failed %d\n", st);
    return 3;
  }
  int ncold = argc > 6 ? atoi(argv[6]) : 0;
  if (ncold > 0) {
    /* this process has not entered the library yet (the reference was computed in the forked child above) */
    cold_trials(ncold, nthreads);
    if (iters <= 0) {
      printf("T %d %d %d %d %ld\n", nthreads, 0, 0, 0, 0L);
      return 0;
    }
  }
  pthread_barrier_init(&bar, NULL, (unsigned)nthreads);
  pthread_t th[64];
  for (long i = 0; i < nthreads; i++)
    pthread_create(&th[i], NULL, worker, (void *)i);
  for (int i = 0; i < nthreads; i++)
    pthread_join(th[i], NULL);
  long okrefs = 0;
  for (int i = 0; i < nprog * NMASK * NMODE * 2; i++)
    okrefs += REF[i].rc == 0;
  printf("T %d %d %ld %ld %ld\n", nthreads, iters, ops, mismatches, okrefs);
  return 0;
}
