"""C08 - the library-managed buffer grows transparently for programs of any length."""
from .. import common

QUANTUM = 6000
NOPS = {1: "nop", 2: "nop2", 3: "nop3", 4: "nop4", 5: "nop5", 6: "nop6", 7: "nop7", 8: "nop8", 9: "nop9", 10: "nop10", 11: "nop11"}


def sled(total, rnd, K):
    """lines of an executable program of exactly `total` plain bytes: nop sled + 'mov rax, K' (10 bytes) + 'ret'."""
    body = total - 11
    lines = []
    # bulk with long nops, then a random tail so instruction boundaries fall everywhere around the threshold
    tail = rnd.randrange(30, 90)
    bulk = max(0, body - tail)
    lines += ["nop11"] * (bulk // 11)
    rest = body - 11 * (bulk // 11)
    while rest > 0:
        L = rnd.randrange(1, min(11, rest) + 1)
        if rnd.random() < 0.2 and rest >= 10:
            lines.append("mov rcx, 0x%x" % (0x1000000000000000 + rnd.getrandbits(40)))
            L = 10
        else:
            lines.append(NOPS[L])
        rest -= L
    lines.append("mov rax, 0x%x" % K)
    lines.append("ret")
    return lines


def run(tier):
    v = common.Verdict("C08", tier)
    full = tier == "thorough"
    rnd = common.rng("c08")
    binary = common.build("wrap")
    mults = [1, 2, 3, 4] if not full else list(range(1, 9))
    # chunk sizes that do and do not divide the growth quantum: with e.g. 7, 9, 13 a pad can straddle a multiple of 6000,
    # so growth happens between the padding round and the instruction (found missing by seeded change C08-fitting-stale-pointer)
    FITS = [7, 9, 11, 13, 14, 16, 17, 64]
    modes = [("plain", []), ("count16", None)] + [("fit%d" % c, ["chunk %%d %d" % c]) for c in FITS]
    cases, meta = [], []
    kc = 0
    for m in mults:
        residues = range(-24, 25) if (full or m <= 2) else sorted(rnd.sample(range(-24, 25), 12))
        for r in residues:
            T = QUANTUM * m + r
            fitpick = set(rnd.sample(["fit%d" % c for c in FITS], 3 if m <= 2 else 2))
            for mode, pre in modes:
                if not full and mode.startswith("fit") and mode not in fitpick:
                    continue
                if not full and m > 2 and mode == "count16":
                    continue
                for pattern in (["single", "multi"] if full or (r % 2 == 0) else ["multi"]):
                    kc += 1
                    K = 0x1122334400000000 + kc
                    lines = sled(T, rnd, K)
                    if pattern == "single":
                        parts = [lines]
                    else:
                        ncalls = rnd.randrange(2, 51)
                        cuts = sorted(rnd.sample(range(1, len(lines)), min(len(lines) - 1, ncalls - 1)))
                        parts, last = [], 0
                        for c in cuts + [len(lines)]:
                            parts.append(lines[last:c])
                            last = c
                    cmds = ["wrap reset", "wrap forcemove 1", "new 0 int", "new 1 ext 1048576 H 0xcc"]
                    if pre:
                        cmds += [p % i for p in pre for i in (0, 1)]
                    for p in parts:
                        hx = common.hx("\n".join(p) + "\n")
                        for i in (0, 1):
                            cmds.append(("cnt %d 16 %s" if mode == "count16" else "asm %d %s") % (i, hx))
                            cmds.append("sumoff %d" % i)
                    cmds += ["exec 0", "wrapreport"]
                    cases.append(cmds)
                    meta.append((T, mode, pattern, len(parts), K, len(cmds)))
    # LONG programs: hundreds of growths in one instance (a growth policy that changes with the size, protection of the pages added
    # late, a step computed in a narrow type): 300 kB, 1.2 MB, 2 MiB and 4 MiB of code (thorough: also 3 and 8 MiB), compared with a caller buffer of that
    # size after every call and executed from the first byte to the last; with forced moves and with the kernel's own mremap
    for bi, T in enumerate([300000 + 7, 1200000 + 13, 2 * 1048576 + 4099, 4 * 1048576 + 77] if not full else [300007, 1200013, 1048576 + 5, 2 * 1048576 - 9, 3 * 1048576 + 1, 8 * 1048576 + 3]):
        for mode, pre in (("plain", []), ("fit17", ["chunk %d 17"]), ("count16", None)):
            if mode != "plain" and T > 2 * 1048576:
                continue
            kc += 1
            K = 0x1122334400000000 + kc
            lines = sled(T, rnd, K)
            ncalls = [1, 7, 40][(bi + len(mode)) % 3]
            cuts = sorted(rnd.sample(range(1, len(lines)), ncalls - 1))
            parts, last = [], 0
            for c in cuts + [len(lines)]:
                parts.append(lines[last:c])
                last = c
            cmds = ["wrap reset", "wrap forcemove %d" % ((bi + len(mode)) % 2), "new 0 int", "new 1 ext %d H 0xcc" % (2 * T + 65536)]
            if pre:
                cmds += [p % i for p in pre for i in (0, 1)]
            for p in parts:
                hx = common.hx("\n".join(p) + "\n")
                for i in (0, 1):
                    cmds.append(("cnt %d 16 %s" if mode == "count16" else "asm %d %s") % (i, hx))
                    cmds.append("sumoff %d" % i)
            cmds += ["exec 0", "wrapreport"]
            cases.append(cmds)
            meta.append((T, mode, "long", len(parts), K, len(cmds)))
    res = common.run_cases(binary, cases, tag="c08", per_case_timeout=240)
    stats = {"cases": len(cases), "growths": 0, "moves": 0, "calls_compared": 0, "executions_ok": 0, "max_len": 0, "min_growths_per_case": 99}
    for (T, mode, pattern, nparts, K, ncmd), cmds, r in zip(meta, cases, res):
        v.count()
        case = {"key": "T=%d (%+d of %d) mode=%s calls=%d" % (T, ((T + 3000) % QUANTUM) - 3000, QUANTUM, mode, nparts), "fam": "growth", "mode": mode, "T": T}
        if r["crash"]:
            v.violation(case, r["crash"]["sig"], (r["crash"]["what"] + "\n" + r["crash"]["stderr"][-1000:]))
            continue
        recs = r["records"]
        base = 4 + (2 if mode.startswith("fit") else 0)
        bad = None
        for k in range(nparts):
            a0, s0, a1, s1 = (recs[base + 4 * k + j].split() for j in range(4))
            if a0[1] != "0":
                bad = ("call-failed-on-internal-buffer", "call %d: %s" % (k, " ".join(a0)))
                break
            if a1[1] != "0":
                bad = ("precondition:call-failed-on-ample-caller-buffer", "call %d: %s" % (k, " ".join(a1)))
                break
            stats["calls_compared"] += 1
            if s0[1:] != s1[1:]:
                bad = ("code-differs-from-reference" if s0[1] == s1[1] else "offset-differs-from-reference", "call %d: internal %s reference %s" % (k, s0[1:], s1[1:]))
                break
            if mode == "count16" and a0[4] != a1[4]:
                bad = ("count-differs-from-reference", "%s vs %s" % (a0[4], a1[4]))
                break
        if not bad:
            e = recs[-2].split()
            if e[:2] != ["V", "ok"] or int(e[2], 16) != K:
                bad = ("execution:" + ("wrong-value" if e[:2] == ["V", "ok"] else "-".join(e[1:3])), "got %s want 0x%x" % (" ".join(e), K))
            else:
                stats["executions_ok"] += 1
        w = recs[-1]
        g = int(w.split("growths=")[1].split()[0])
        mv = int(w.split("moves=")[1].split()[0])
        stats["growths"] += g
        stats["moves"] += mv
        stats["min_growths_per_case"] = min(stats["min_growths_per_case"], g)
        stats["max_len"] = max(stats["max_len"], T)
        stats["cases_with_growth"] = stats.get("cases_with_growth", 0) + (g >= 1)
        if bad:
            v.violation(case, bad[0], bad[1])
        else:
            v.distinct((T, mode, pattern, nparts))
            if v.cov["evaluations"] % 90 == 1:
                v.sample({"plain_length": T, "mode": mode, "calls": nparts, "growths": g, "moved": mv, "returned_rax": "0x%x" % K})
    # ---- the same calls include asm_set_offset: offsets ahead of (and behind) the code assembled so far, also beyond the current
    # mapping, must behave as on the large caller buffer (each call's own region and the resulting offset are compared)
    jcases, jmeta = [], []
    njump = 60 if not full else 1500
    for k in range(njump):
        steps = []
        pos_choices = [0, 0, 1, 19, 5979, 5980, 5999, 6000, 6019, 6020, 6021, 11999, 12040, 20000, 40000, 100000, 250000]
        for _ in range(rnd.randrange(2, 7)):
            off = rnd.choice(pos_choices) if rnd.random() < 0.7 else rnd.randrange(0, 300000)
            n11 = rnd.choice([0, 1, 5, 600, 1200])
            steps.append((off, n11))
        cmds = ["wrap reset", "wrap forcemove %d" % (k % 2), "new 0 int", "new 1 ext 1048576 H 0xcc"]
        for off, n11 in steps:
            hx = common.hx("\n".join(["nop11"] * n11 + ["mov rax, 0x1122334455667788", "ret"]))
            end = off + 11 * n11 + 11
            cmds += ["setoff 0 %d" % off, "setoff 1 %d" % off, "asm 0 %s" % hx, "asm 1 %s" % hx, "getoff 0", "getoff 1", "sum 0 %d %d" % (off, end), "sum 1 %d %d" % (off, end)]
        # finally every region written by a step and not overwritten by a later one is looked at AGAIN: growth (or any other
        # bookkeeping triggered by a later call, e.g. one that starts at offset 0) must have preserved it
        regions = [(off, off + 11 * n11 + 11) for off, n11 in steps]
        keep = [r for i, r in enumerate(regions) if not any(r[0] < q[1] and q[0] < r[1] for q in regions[i + 1:])]
        for lo, hi in keep:
            cmds += ["sum 0 %d %d" % (lo, hi), "sum 1 %d %d" % (lo, hi)]
        cmds.append("wrapreport")
        jcases.append(cmds)
        jmeta.append((steps, keep))
    jres = common.run_cases(binary, jcases, tag="c08j", per_case_timeout=60)
    stats["offset_jump_cases"] = len(jcases)
    stats["offset_jump_calls"] = 0
    for (steps, keep), cmds, r in zip(jmeta, jcases, jres):
        v.count()
        case = {"key": "offsets %s" % steps, "fam": "offset_jump", "script": cmds}
        if r["crash"]:
            v.violation(case, r["crash"]["sig"], (r["crash"]["what"] + "\n" + r["crash"]["stderr"][-1000:]))
            continue
        recs = r["records"]
        bad = None
        for i, (off, n11) in enumerate(steps):
            b = 4 + 8 * i
            a0, a1, g0, g1, s0, s1 = (recs[b + 2 + j].split() for j in range(6))
            if a1[1] != "0":
                bad = ("precondition:call-failed-on-ample-caller-buffer", " ".join(a1))
            elif a0[1] != "0":
                bad = ("call-failed-on-internal-buffer", "step %d offset %d: %s" % (i, off, " ".join(a0)))
            elif g0[1] != g1[1]:
                bad = ("offset-differs-from-reference", "step %d: %s vs %s" % (i, g0[1], g1[1]))
            elif s0[1] != s1[1]:
                bad = ("code-differs-from-reference", "step %d offset %d" % (i, off))
            if bad:
                break
            stats["offset_jump_calls"] += 1
        if not bad:
            b = 4 + 8 * len(steps)
            for i, (lo, hi) in enumerate(keep):
                if recs[b + 2 * i].split()[1] != recs[b + 2 * i + 1].split()[1]:
                    bad = ("earlier-code-lost", "region [%d,%d) written by an earlier step differs from the reference at the end of the sequence" % (lo, hi))
                    break
        if bad:
            v.violation(case, bad[0], bad[1])
        else:
            v.distinct(("jump", tuple(steps)))
    # ---- the caller changes protection / advice of FINISHED pages of the code buffer between calls (a JIT sealing pages read+exec,
    # MADV_DONTDUMP ...), which splits the mapping; the next growth may then be refused by the kernel - that has to be reported, and
    # after the caller has undone the change the assembly continues; if the growth succeeds instead, the code must be complete and
    # EXECUTABLE all the same
    pcases, pmeta = [], []
    for k, (what, arg, undo) in enumerate([("mprot", 5, 7), ("madv", 16, 17), ("mprot", 5, 7), ("madv", 16, 17), ("mprot", 1, 7), ("mprot", 3, 7)]):  # PROT_READ|PROT_EXEC -> RWX; MADV_DONTDUMP -> DODUMP; PROT_READ; PROT_READ|PROT_WRITE (only changes whose undo really restores the mapping's flags)
        K = 0x5566778800000000 + k
        n1 = 5000 + 137 * k
        part1 = sled(n1 + 11, rnd, K)[:-2]          # nops only (n1 bytes)
        part2 = sled(3000 + 11, rnd, K)             # ... + mov rax, K + ret: the growth threshold (6000) lies inside this part
        h1, h2 = common.hx("\n".join(part1) + "\n"), common.hx("\n".join(part2) + "\n")
        cmds = ["wrap reset", "wrap forcemove %d" % (k % 2), "new 0 int", "new 1 ext 65536 H 0xcc", "asm 0 %s" % h1, "asm 1 %s" % h1,
                "%s 0 0 1 %d" % (what, arg), "asm 0 %s" % h2, "asm 1 %s" % h2,
                # whatever happened: undo the caller's change, go back to the end of part 1 and assemble part 2 (again)
                "%s 0 0 1 %d" % (what, undo), "setoff 0 %d" % n1, "setoff 1 %d" % n1, "asm 0 %s" % h2, "asm 1 %s" % h2, "sumoff 0", "sumoff 1", "exec 0", "wrapreport"]
        pcases.append(cmds)
        pmeta.append((what, arg, K))
    # ... and the variant in which the caller does NOT undo anything and simply calls the code after a growth that was reported successful
    for k, (what, arg) in enumerate([("mprot", 5), ("madv", 16), ("madv", 14)]):
        K = 0x6677889900000000 + k
        part1 = sled(5000 + 11, rnd, K)[:-2]
        part2 = sled(3000 + 11, rnd, K)
        h1, h2 = common.hx("\n".join(part1) + "\n"), common.hx("\n".join(part2) + "\n")
        pcases.append(["wrap reset", "wrap forcemove %d" % (k % 2), "new 0 int", "asm 0 %s" % h1, "%s 0 0 1 %d" % (what, arg), "asm 0 %s" % h2, "exec 0", "wrapreport"])
        pmeta.append((what + "-noundo", arg, K))
    pres = common.run_cases(binary, pcases, tag="c08p", per_case_timeout=60)
    stats["caller_protection_cases"] = 0
    stats["growth_refused_after_caller_change"] = 0
    for (what, arg, K), cmds, r in zip(pmeta, pcases, pres):
        v.count()
        case = {"key": "caller %s(%d) on the first page, then growth" % (what, arg), "fam": "growth_protect", "script": cmds}
        recs = r["records"]
        bad = None
        if what.endswith("-noundo"):
            a2 = recs[5].split() if len(recs) > 5 else ["?", "?"]
            if a2[1] == "0":
                # the growth was reported successful: the code must run
                e = recs[6].split() if len(recs) > 6 else []
                if r["crash"] or e[:2] != ["V", "ok"] or int(e[2], 16) != K:
                    bad = ("execution-after-growth:" + ("-".join(e[1:3]) if e else "crash"), "growth reported success, but calling the code gives %s" % (" ".join(e) or (r["crash"] or {}).get("sig")))
            elif r["crash"] and len(recs) < 6:
                bad = (r["crash"]["sig"], r["crash"]["stderr"][-600:])
            else:
                stats["growth_refused_after_caller_change"] += 1
        elif r["crash"]:
            bad = (r["crash"]["sig"], (r["crash"]["what"] + "\n" + r["crash"]["stderr"][-800:]))
        else:
            mrec, a2 = recs[6].split(), recs[7].split()
            if mrec[1] != "0":
                v.inconclusive.append({"why": "the kernel refused the caller's own %s: %s" % (what, recs[6]), "case": case["key"]})
                continue
            stats["growth_refused_after_caller_change"] += a2[1] != "0"
            a3, a3r, s0, s1, e = recs[12].split(), recs[13].split(), recs[14].split(), recs[15].split(), recs[16].split()
            if a3r[1] != "0":
                bad = ("precondition:call-failed-on-ample-caller-buffer", " ".join(a3r))
            elif a3[1] != "0":
                bad = ("call-failed-on-internal-buffer", "after the caller's change was undone: %s" % " ".join(a3))
            elif s0[1:] != s1[1:]:
                bad = ("code-differs-from-reference", "%s vs %s" % (s0[1:], s1[1:]))
            elif e[:2] != ["V", "ok"] or int(e[2], 16) != K:
                bad = ("execution:" + "-".join(e[1:3]), "got %s want 0x%x" % (" ".join(e), K))
        if bad:
            v.violation(case, bad[0], bad[1])
        else:
            stats["caller_protection_cases"] += 1
            v.distinct(("prot", what, arg))
    # ---- VERY long programs (66 MB of code; thorough: also 140 MB and chunk fitting): built inside the driver (asmrep) from one repeated
    # 11-byte NOP, 4.4 MB per call, compared with a caller buffer after every call and executed from the first byte to the last. A growth
    # policy that changes with the size, a length computed in 32 bits, a product that wraps - whatever needs tens of megabytes
    hcases, hmeta = [], []
    for (mb, mode) in ([(66, "plain")] if not full else [(66, "plain"), (66, "fit17"), (140, "plain"), (34, "count16")]):
        K = 0x4455667700000000 + mb
        per = 400000
        ncall = mb * 1000000 // (per * 11)
        growth = 1.6 if mode == "fit17" else 1.0
        cmds = ["watchdog 900", "wrap reset", "wrap forcemove 0", "new 0 int", "new 1 ext %d H 0xcc" % int(mb * 1000000 * growth + 8 * 1024 * 1024)]
        if mode == "fit17":
            cmds += ["chunk 0 17", "chunk 1 17"]
        for k in range(ncall):
            if mode == "count16":
                txt = common.hx("\n".join(["nop11"] * 20000))
                cmds += ["cnt 0 16 %s" % txt, "cnt 1 16 %s" % txt, "sumoff 0", "sumoff 1"]
            else:
                cmds += ["asmrep 0 %d %s" % (per, common.hx("nop11")), "asmrep 1 %d %s" % (per, common.hx("nop11")), "sumoff 0", "sumoff 1"]
        cmds += ["asm 0 %s" % common.hx("mov rax, 0x%x\nret" % K), "exec 0", "wrapreport", "watchdog 20"]
        hcases.append(cmds)
        hmeta.append((mb, mode, ncall, K))
    hres = common.run_cases(binary, hcases, tag="c08h", per_case_timeout=900)
    stats["huge_program_cases"] = 0
    for (mb, mode, ncall, K), cmds, r in zip(hmeta, hcases, hres):
        v.count()
        case = {"key": "%d MB of code in %d calls, %s" % (mb, ncall, mode), "fam": "growth_huge", "mode": mode}
        if r["crash"]:
            v.violation(case, r["crash"]["sig"], (r["crash"]["what"] + "\n" + r["crash"]["stderr"][-800:]))
            continue
        recs = r["records"]
        base = 5 + (2 if mode == "fit17" else 0)
        bad = None
        for k in range(ncall):
            a0, a1, s0, s1 = (recs[base + 4 * k + j].split() for j in range(4))
            if a1[1] != "0":
                bad = ("precondition:call-failed-on-ample-caller-buffer", "call %d: %s" % (k, " ".join(a1)))
            elif a0[1] != "0":
                bad = ("call-failed-on-internal-buffer", "call %d at %s bytes: %s" % (k, a0[2], " ".join(a0)))
            elif s0[1:] != s1[1:]:
                bad = ("code-differs-from-reference" if s0[1] == s1[1] else "offset-differs-from-reference", "call %d: internal %s reference %s" % (k, s0[1:], s1[1:]))
            if bad:
                break
        if not bad:
            e = recs[-3].split()
            if e[:2] != ["V", "ok"] or int(e[2], 16) != K:
                bad = ("execution:" + "-".join(e[1:3]), "got %s want 0x%x" % (" ".join(e), K))
        if bad:
            v.violation(case, bad[0], bad[1])
        else:
            stats["huge_program_cases"] += 1
            stats["max_len"] = max(stats["max_len"], mb * 1000000)
            v.distinct(("huge", mb, mode))
    # ---- SEVERAL live library-managed instances of one thread growing ALTERNATELY (their mappings are neighbours; whatever the library
    # keeps about 'the' buffer outside the instance - a last pointer, a high-water mark - then belongs to the wrong one), one of them
    # destroyed in the middle while the others go on growing; real and forced-move mremap
    acases, ameta = [], []
    for k in range(12 if not full else 300):
        nlive = rnd.choice([2, 2, 3])
        Ks = [0x7788990000000000 + 16 * k + i for i in range(nlive)]
        progs_ = [sled(rnd.choice([9000, 14000, 20000, 31000]) + rnd.randrange(0, 50), rnd, Ks[i]) for i in range(nlive)]
        cuts_ = []
        for pl in progs_:
            npart = rnd.randrange(3, 9)
            cc = sorted(rnd.sample(range(1, len(pl)), npart - 1))
            cuts_.append([pl[a:b] for a, b in zip([0] + cc, cc + [len(pl)])])
        cmds = ["wrap reset", "wrap forcemove %d" % (k % 2)]
        for i in range(nlive):
            cmds += ["new %d int" % (2 * i), "new %d ext 65536 H 0xcc" % (2 * i + 1)]
        order = [(i, j) for i in range(nlive) for j in range(len(cuts_[i]))]
        order.sort(key=lambda t: (t[1], rnd.random()))  # round robin over the instances, random order within a round
        victim = rnd.randrange(nlive) if k % 2 else None
        checks = []
        done = [0] * nlive
        for (i, j) in order:
            if victim == i and j >= 2:
                if j == 2:
                    cmds += ["del %d" % (2 * i)]  # this one goes away while the others keep growing
                continue
            hx_ = common.hx("\n".join(cuts_[i][j]) + "\n")
            base_ = len(cmds)
            cmds += ["asm %d %s" % (2 * i, hx_), "asm %d %s" % (2 * i + 1, hx_), "sumoff %d" % (2 * i), "sumoff %d" % (2 * i + 1)]
            checks.append((i, j, base_))
            done[i] = j + 1
        execs = []
        for i in range(nlive):
            if victim == i:
                continue
            execs.append((i, len(cmds)))
            cmds.append("exec %d" % (2 * i))
        cmds.append("wrapreport")
        acases.append(cmds)
        ameta.append((nlive, victim, checks, execs, Ks))
    ares = common.run_cases(binary, acases, tag="c08a", per_case_timeout=60)
    stats["alternating_instances_cases"] = 0
    for (nlive, victim, checks, execs, Ks), cmds, r in zip(ameta, acases, ares):
        v.count()
        case = {"key": "%d live instances growing alternately%s" % (nlive, ", #%d destroyed in the middle" % victim if victim is not None else ""), "fam": "growth_alternating", "script": cmds if len(str(cmds)) < 4000 else None}
        if r["crash"]:
            v.violation(case, r["crash"]["sig"], (r["crash"]["what"] + "\n" + r["crash"]["stderr"][-800:]))
            continue
        recs = r["records"]
        bad = None
        for (i, j, b) in checks:
            a0, a1, s0, s1 = recs[b].split(), recs[b + 1].split(), recs[b + 2].split(), recs[b + 3].split()
            if a1[1] != "0":
                bad = ("precondition:call-failed-on-ample-caller-buffer", " ".join(a1))
            elif a0[1] != "0":
                bad = ("call-failed-on-internal-buffer", "instance %d part %d: %s" % (i, j, " ".join(a0)))
            elif s0[1:] != s1[1:]:
                bad = ("code-differs-from-reference", "instance %d after part %d: %s vs %s" % (i, j, s0[1:], s1[1:]))
            if bad:
                break
        if not bad:
            for (i, b) in execs:
                e = recs[b].split()
                if e[:2] != ["V", "ok"] or int(e[2], 16) != Ks[i]:
                    bad = ("execution:" + "-".join(e[1:3]), "instance %d: got %s want 0x%x" % (i, " ".join(e), Ks[i]))
                    break
        if bad:
            v.violation(case, bad[0], bad[1])
        else:
            stats["alternating_instances_cases"] += 1
            v.distinct(("alt", nlive, victim, len(checks)))
    v.cov["rule"] = ("executable programs (multi-byte-nop sled + mov rax,K + ret) whose plain length is 6000*m + r for every r in -24..24 (m = %s) so the last instructions start at every distance from the growth "
                     "threshold; single call and 2-50 calls; plain / chunk fitting (8 sizes) / counting; long programs of 300 kB .. 4 MiB of code (thorough: up to 8 MiB: > 1000 growths in one instance) compared and executed the same way; ld --wrap mremap forces EVERY growth to move the mapping (old range unmapped). After every call "
                     "(offset, FNV hash of asm_get_code[0,offset)) must equal the same calls on a 1 MiB caller buffer, and calling asm_get_code() must return K; plus a program of 66 MB of code in 15 calls (thorough: also 140 MB, chunk fitting, counting) compared after every call and executed; plus 2-3 live library instances of one thread growing alternately (one of them destroyed in the middle), each compared with its caller-buffer twin after every call and executed; plus growth after the CALLER has changed the protection / advice of finished pages (mprotect read+exec, MADV_DONTDUMP, MADV_HUGEPAGE: the mapping is split, the kernel may refuse the growth - reported, retried after undoing - or the growth succeeds and the code must run); plus sequences of asm_set_offset (ahead of / behind the code so far, up to 300000) + assemble, each call's region and offset compared with the caller buffer" % mults)
    v.cov["exhaustive"] = False
    v.cov.update(stats)
    return v.finish(None, stats["growths"] > 50 and stats["executions_ok"] > 50 and stats.get("cases_with_growth", 0) > 0.8 * len(cases), "too few growth events: %r" % stats)
