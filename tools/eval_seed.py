#!/usr/bin/env python3
"""tools/eval_seed.py <id> <worktree> <primary-property> [<other checks>...]
Confirms an independently written break (sub-agent output in <worktree>/_seed/) and files it under seeded/<id>/:
 1. the patch applies to a scratch copy of /repo's sources and compiles,
 2. the demonstration exits 0 without and non-zero with the patch,
 3. the repository's own test suite still passes with the patch (run in the agent's built worktree, .trs files),
 4. which /verif checks (quick tier) report it.
Writes seeded/<id>/{patch.diff,demo.*,notes.md,meta.json}."""
import os, glob, json, os, re, shutil, subprocess, sys, tempfile
V = os.path.dirname(os.path.dirname(os.path.abspath(__file__)))
sid, wt, prim = sys.argv[1], sys.argv[2], sys.argv[3]
checks = [prim] + sys.argv[4:]
sd = os.path.join(wt, "_seed")
dst = os.path.join(V, "seeded", sid)
os.makedirs(dst, exist_ok=True)
for f in glob.glob(os.path.join(sd, "*")):
    if os.path.isfile(f) and os.path.getsize(f) < 200000 and not os.access(f, os.X_OK):
        shutil.copy(f, dst)
patch = os.path.join(dst, "patch.diff")
# keep only source hunks (src/, tools/asmline.c)
txt = open(patch).read()
meta = {"id": sid, "breaks_property": prim, "source": "sub-agent given only the property text and a scratch worktree of /repo"}
tmp = tempfile.mkdtemp(prefix="al-seed-")
try:
    for d in ("orig", "mut"):
        os.makedirs(os.path.join(tmp, d))
        subprocess.check_call("git -C /repo archive HEAD src tools test | tar -x -C %s" % os.path.join(tmp, d), shell=True)
    r = subprocess.run(["patch", "-p1", "-d", os.path.join(tmp, "mut"), "-i", patch], capture_output=True, text=True)
    meta["patch_applies_to_repo_HEAD"] = r.returncode == 0
    if r.returncode:
        print("PATCH DOES NOT APPLY:", r.stdout[-500:], r.stderr[-500:])
    demo = [f for f in os.listdir(dst) if f.startswith("demo.")]
    res = {}
    for d in ("orig", "mut"):
        wd = os.path.join(tmp, d)
        for f in demo:
            shutil.copy(os.path.join(dst, f), wd)
        for f in os.listdir(dst):
            if f not in ("patch.diff", "meta.json", "notes.md"):
                shutil.copy(os.path.join(dst, f), wd)
        if "demo.sh" in demo:
            x = subprocess.run(["bash", "demo.sh"], cwd=wd, capture_output=True, text=True, timeout=900, errors="replace")
        elif "demo.c" in demo:
            c = subprocess.run("gcc -w -I src demo.c src/*.c -o demo_bin -lpthread", shell=True, cwd=wd, capture_output=True, text=True)
            if c.returncode:
                res[d] = ("compile-failed", c.stderr[-400:])
                continue
            x = subprocess.run(["./demo_bin"], cwd=wd, capture_output=True, text=True, timeout=900, errors="replace")
        else:
            res[d] = ("no-demo", "")
            continue
        res[d] = (x.returncode, (x.stdout + x.stderr)[-300:])
    meta["demo_exit_unchanged"] = res.get("orig", [None])[0]
    meta["demo_exit_with_patch"] = res.get("mut", [None])[0]
    print("demo: unchanged ->", res.get("orig"), "\n      patched   ->", res.get("mut"))
    # repository suite in the agent's worktree (already built with the change)
    for p in glob.glob(os.path.join(wt, "test", "**", "*.trs"), recursive=True):
        os.unlink(p)
    subprocess.run(["make", "-C", wt, "check", "-j8"], capture_output=True, text=True)
    subprocess.run(["sh", os.path.join(os.path.dirname(os.path.abspath(__file__)), "fixdev.sh")])  # the suite (nasm as root) can replace /dev/stdout by a regular file
    ok = set()
    for p in glob.glob(os.path.join(wt, "test", "**", "*.trs"), recursive=True):
        rr = re.findall(r"^:test-result: (\S+)", open(p).read(), re.M)
        if rr and all(x in ("PASS", "XFAIL") for x in rr):
            ok.add(os.path.relpath(p, wt)[:-4])
    base = json.load(open("/root/.vp/BASELINE.json"))
    strip = lambda n: re.sub(r"\.(asm|sh|tap|eaf)$", "", n)
    missing = [n for n in base["stable_pass"] if strip(n) not in ok and n not in ok]
    meta["repo_suite_with_patch"] = "%d/%d stable tests pass" % (len(base["stable_pass"]) - len(missing), len(base["stable_pass"]))
    meta["repo_suite_not_passing"] = missing
    print("suite with patch:", meta["repo_suite_with_patch"], missing)
    d = subprocess.run("git -C %s diff --stat HEAD -- src tools/asmline.c | tail -1" % wt, shell=True, capture_output=True, text=True)
    meta["worktree_diff_stat"] = d.stdout.strip()
finally:
    shutil.rmtree(tmp, ignore_errors=True)
# which checks catch it
out = subprocess.run([sys.executable, os.path.join(V, "tools", "try_patch.py"), patch] + checks, capture_output=True, text=True)
print(out.stdout)
meta["checks_run"] = {}
for ln in out.stdout.splitlines():
    m = re.match(r"^(C\d+) exit=(\d+) violations=(\d+) (.*)$", ln)
    if m:
        meta["checks_run"][m.group(1)] = {"exit": int(m.group(2)), "violation_lines": int(m.group(3)), "first": m.group(4)[:260]}
meta["caught_by"] = sorted(k for k, x in meta["checks_run"].items() if x["exit"] == 1)
json.dump(meta, open(os.path.join(dst, "meta.json"), "w"), indent=1)
print("caught by:", meta["caught_by"])
